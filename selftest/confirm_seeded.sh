#!/bin/sh
# selftest/confirm_seeded.sh <patch.diff> <demo_test.go(.txt)> [extra go test flags]
# Confirms, in a scratch worktree of /repo outside /repo and /verif, that a seeded change
#  (1) applies and compiles, (2) leaves the repository's own suite passing (without the demo),
#  (3) makes the demonstration fail, and (4) the demonstration passes on the clean tree.
PATCH=$1; DEMO=$2; shift 2
export GOFLAGS=-mod=mod GOPROXY=off GOSUMDB=off GOTOOLCHAIN=local
W=$(mktemp -d /tmp/confirm.XXXXXX)
trap 'git -C /repo worktree remove --force "$W/w" >/dev/null 2>&1; rm -rf "$W"' EXIT
git -C /repo worktree add -q --detach "$W/w" HEAD || exit 2
cd "$W/w" || exit 2
name=$(grep -o 'func TestDemo[A-Za-z0-9_]*' "$DEMO" | head -1 | sed 's/func //')
cp "$DEMO" demo_seeded_test.go
if go test -vet=off -count=1 -run "^$name\$" "$@" . >"$W/clean.log" 2>&1; then echo "clean tree: demo PASSES"; c=1; else echo "clean tree: demo FAILS (bad demo)"; tail -5 "$W/clean.log"; c=0; fi
rm demo_seeded_test.go
git apply "$PATCH" || { echo "patch does not apply"; exit 3; }
if go test -vet=off -count=1 ./... >"$W/suite.log" 2>&1; then echo "changed tree: own suite PASSES"; s=1; else echo "changed tree: own suite FAILS"; tail -5 "$W/suite.log"; s=0; fi
cp "$DEMO" demo_seeded_test.go
if go test -vet=off -count=1 -run "^$name\$" "$@" . >"$W/mut.log" 2>&1; then echo "changed tree: demo PASSES (not a demonstration)"; m=0; else echo "changed tree: demo FAILS: $(grep -m1 -E 'FAIL|panic|fatal|DATA RACE' "$W/mut.log" | cut -c1-160)"; m=1; fi
[ "$c$s$m" = 111 ] && echo CONFIRMED || echo NOT-CONFIRMED
