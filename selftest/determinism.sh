#!/bin/sh
# Determinism self-test: the full event log (every step: task, yield point,
# outcome, dump hash; schedule; violations; final dumps) of the same run
# seeds must be byte-identical across repeated executions, GOMAXPROCS
# settings and processes.   usage: selftest/determinism.sh [runs-per-property] [batch-seed]
cd "$(dirname "$0")/.." || exit 2
export GOFLAGS=-mod=mod GOPROXY=off GOSUMDB=off GOTOOLCHAIN=local
(cd sim && go build -tags verif -o ../bin/sim .) || exit 2
N=${1:-60}
SEED=${2:-1}
T=$(mktemp -d)
trap 'rm -rf "$T"' EXIT
grep -n "range .*map\|\.Range(" sim/*.go | grep -v "sortedKeys\|// order-free" > "$T/maps.txt"
fail=0
for P in $(./bin/sim list); do
  i=0
  for G in 1 4 16; do
    for rep in 1 2 3 4 5; do
      i=$((i+1))
      GOMAXPROCS=$G ./bin/sim eventlog "$P" "$SEED" 0 "$N" > "$T/$P.$i.log" 2>&1 &
    done
  done
  wait
  for j in $(seq 2 $i); do
    if ! cmp -s "$T/$P.1.log" "$T/$P.$j.log"; then
      echo "NONDETERMINISTIC property=$P (execution 1 vs $j)"; diff "$T/$P.1.log" "$T/$P.$j.log" | head -5; fail=1
    fi
  done
  pfail=0
  for j in $(seq 2 $i); do cmp -s "$T/$P.1.log" "$T/$P.$j.log" || pfail=1; done
  [ $pfail = 0 ] && echo "$P: $i executions x $N runs identical: $(wc -l < "$T/$P.1.log") log lines, sha $(sha1sum < "$T/$P.1.log" | cut -c1-12)"
done
exit $fail
