#!/usr/bin/env python3
"""Generates the hand-written sensitivity mutants (DESIGN.md section 14) as patch
files under selftest/mutants/: each is one small property-breaking edit of
/repo (made in a scratch copy, never in /repo). Negative cases (must stay
quiet) are named quiet-*."""
import os, subprocess, shutil, tempfile, sys
M = [
 # name, property, file, old, new
 ("c01-pop-fifo-lifo-swapped","C01","stack.go","	if r.isFIFO() {\n		idx = 1\n		slice = (*r)[idx]","	if !r.isFIFO() {\n		idx = 1\n		slice = (*r)[idx]"),
 ("c01-insert-clamp-off-by-one","C01","stack.go","if u1-1 < left {","if u1 < left {"),
 ("c01-reverse-starts-at-cfg","C01","stack.go","for i, j := 1, r.len()-1; i < j;","for i, j := 0, r.len()-1; i < j;"),
 ("c01-append-drops-nil","C01","stack.go","			if !r.isFull() {\n				*r = append(*r, x[i])\n				pct++\n			}\n		}\n	}\n}","			if !r.isFull() && x[i] != nil {\n				*r = append(*r, x[i])\n				pct++\n			}\n		}\n	}\n}"),
 ("c01-front-back-exchanged-fifo","C01","stack.go","func (r Stack) Front() (slice any, ok bool) {\n	if r.IsInit() {\n\n		if r.IsFIFO() {","func (r Stack) Front() (slice any, ok bool) {\n	if r.IsInit() {\n\n		if !r.IsFIFO() && r.Len() > 2 {"),
 ("c01-neg-index-off-by-one","C01","stack.go","	if i += (l * 2); i > l-1 {\n		i = (i - l) + 1","	if i += (l * 2); i > l {\n		i = (i - l) + 1"),
 ("c01-remove-keeps-wrong-slot-fifo","C01","stack.go","			if index != i {\n				preserved++","			if (index != i && !r.isFIFO()) || (r.isFIFO() && i != r.len()-index) {\n				preserved++"),
 ("c03-isfull-off-by-one","C03","stack.go","	return r.len() == r.cap()\n}","	return r.len() > r.cap()\n}"),
 ("c03-insert-guard-off-by-one","C03","stack.go","if u1+1 > r.cap()-1 && r.cap() != 0 {","if u1 > r.cap()-1 && r.cap() != 0 {"),
 ("c03-avail-arith","C03","stack.go","			avail = r.cap() - r.len()","			avail = r.cap() - r.ulen()"),
 ("c03-insert-check-hoisted-out-of-lock","C03","stack.go","func (r *stack) insert(x any, left int) (ok bool) {\n	r.lock()\n	defer r.unlock()\n\n	// note the len before we start\n	var u1 int = r.ulen()\n\n	// bail out if a capacity has been set and\n	// would be breached by this insertion.\n	if u1+1 > r.cap()-1 && r.cap() != 0 {\n		//err := errorf(\"failed: capacity violation\")\n		return\n	}\n","func (r *stack) insert(x any, left int) (ok bool) {\n	// note the len before we start\n	var u1 int = r.ulen()\n\n	// bail out if a capacity has been set and\n	// would be breached by this insertion.\n	if u1+1 > r.cap()-1 && r.cap() != 0 {\n		//err := errorf(\"failed: capacity violation\")\n		return\n	}\n\n	r.lock()\n	defer r.unlock()\n	u1 = r.ulen()\n"),
 ("c06-rejected-expression-overwrites","C06","cond.go","	if v, ok := r.assertConditionExpressionValue(ex); ok {\n		r.ex = v\n	}","	if v, ok := r.assertConditionExpressionValue(ex); ok || (ex != nil && r.ex == nil) {\n		r.ex = v\n	}"),
 ("c06-valid-forgets-keyword","C06","cond.go","	if kw := r.Keyword(); len(kw) == 0 {","	if kw := r.Keyword(); len(kw) == 0 && r.Expression() == nil {"),
 ("c06-paren-padding-slip","C06","cond.go","		s = `(` + pad + s + pad + `)`\n	}\n\n	return s","		s = `(` + s + pad + `)`\n	}\n\n	return s"),
 ("c08-swap-upper-bound-weakened","C08","stack.go","if u := r.ulen(); i < 0 || j < 0 || i >= u || j >= u {","if u := r.ulen(); i < 0 || j < 0 || i > u || j >= u {"),
 ("c08-replace-lower-bound-dropped","C08","stack.go","if ok = 0 <= i && i < r.ulen(); ok {","if ok = -1 <= i && i < r.ulen(); ok {"),
 ("c08-converter-validity-removed","C08","stack.go","		if v.IsValid() && a.ConvertibleTo(b) {\n			X := v.Convert(b).Interface()\n			if assert, ok := X.(Stack); ok {","		if a.ConvertibleTo(b) {\n			X := v.Convert(b).Interface()\n			if assert, ok := X.(Stack); ok {"),
 ("c09-setcategory-guard-lost","C09","stack.go","func (r Stack) SetCategory(cat string) Stack {\n	if r.IsInit() {\n		if !r.getState(ronly) {\n			r.stack.setCat(cat)\n		}\n	}","func (r Stack) SetCategory(cat string) Stack {\n	if r.IsInit() {\n		r.stack.setCat(cat)\n	}"),
 ("c09-setstate-exemption-widened","C09","cond.go","			if !r.getState(ronly) || cf == ronly {","			if !r.getState(ronly) || cf >= ronly {"),
 ("c09-free-ignores-readonly","C09","cond.go","func (r *Condition) Free() (err error) {\n	if r.IsInit() {\n		if !r.getState(ronly) {\n			r.condition = nil\n			return\n		}","func (r *Condition) Free() (err error) {\n	if r.IsInit() {\n		if !r.getState(ronly) || r.condition.ex == nil {\n			r.condition = nil\n			return\n		}"),
 ("c09-unsetloglevel-guard-inverted","C09","stack.go","func (r Stack) UnsetLogLevel(l ...any) Stack {\n	if r.IsInit() {\n		if !r.getState(ronly) {","func (r Stack) UnsetLogLevel(l ...any) Stack {\n	if r.IsInit() {\n		if r.getState(ronly) || len(l) > 1 {"),
 ("c10-reverse-lock-dropped","C10","stack.go","func (r *stack) reverse() {\n\n	r.lock()\n	defer r.unlock()\n","func (r *stack) reverse() {\n"),
 ("c10-pop-check-before-lock","C10","stack.go","	r.lock()\n	defer r.unlock()\n\n	var idx int\n\n	// the emptiness test made by the caller is not\n	// protected by the lock; repeat it here.\n	if r.ulen() == 0 {\n		return\n	}\n","	var idx int\n\n	if r.ulen() == 0 {\n		return\n	}\n\n	r.lock()\n	defer r.unlock()\n"),
 ("c10-remove-unlock-before-last-write","C10","stack.go","		R = append(R, contents...)\n\n		*r = R\n","		R = append(R, contents...)\n		r.unlock()\n		*r = R\n		r.lock()\n"),
 ("c10-lock-stamp-outside","C10","stack.go","			verifPoint(\"lock.want\", r)\n			mutex.Lock()\n			verifPoint(\"lock.held\", r)\n			_now := now()\n			sc.ldr = &_now","			_now := now()\n			sc.ldr = &_now\n			verifPoint(\"lock.want\", r)\n			mutex.Lock()\n			verifPoint(\"lock.held\", r)"),
 ("c10-swap-missing-unlock-on-early-return","C10","stack.go","	r.lock()\n	defer r.unlock()\n\n	if u := r.ulen(); i < 0 || j < 0 || i >= u || j >= u {\n		return\n	}\n\n	i++\n	j++\n\n	(*r)[i], (*r)[j] = (*r)[j], (*r)[i]\n}","	r.lock()\n\n	if u := r.ulen(); i < 0 || j < 0 || i >= u || j >= u {\n		return\n	}\n\n	i++\n	j++\n\n	(*r)[i], (*r)[j] = (*r)[j], (*r)[i]\n	r.unlock()\n}"),
 ("c11-string-records-error","C11","stack.go","	if can, ot, oc := r.canString(); can {\n","	if can, ot, oc := r.canString(); !can {\n		if r != nil && r.isInit() && r.ulen() > 0 {\n			r.setErr(errorf(\"not stringable\"))\n		}\n	} else {\n"),
 ("c11-isequal-records-error","C11","stack.go","		// use default assertion with the converted\n		// instance.\n		return r.stack.isEqual(s.stack)","		// use default assertion with the converted\n		// instance.\n		err := r.stack.isEqual(s.stack)\n		if err != nil {\n			r.stack.setErr(err)\n		}\n		return err"),
 ("c11-unmarshal-hands-back-internal","C11","stack.go","func (r stack) unmarshalDefault() (slices []any, err error) {\n	slices = append(slices, r.kind())","func (r stack) unmarshalDefault() (slices []any, err error) {\n	if r.ulen() > 2 && !r.isNesting() {\n		return r[1:], nil\n	}\n	slices = append(slices, r.kind())"),
 ("c13-cannest-inverted-again","C13","stack.go","	return r.IsInit() && !r.getState(nnest)","	return r.IsInit() && r.getState(nnest)"),
 ("c13-pointer-alias-not-recognised","C13","stack.go","	can = true\n	if r.positive(nnest) {\n		_, isStack := stackTypeAliasConverter(x)\n		can = !isStack\n	}","	can = true\n	if r.positive(nnest) {\n		_, isStack := stackTypeAliasConverter(x)\n		if typOf(x) != nil && typOf(x).Kind() == 22 {\n			isStack = false\n		}\n		can = !isStack\n	}"),
 ("c14-policy-consulted-when-full","C14","stack.go","		if !r.isFull() {\n			if err = meth(x[i]); err != nil {\n				r.setErr(err)\n				break\n			}\n\n			*r = append(*r, x[i])\n			pct++\n		}","		if err = meth(x[i]); err != nil {\n			r.setErr(err)\n			break\n		}\n		if !r.isFull() {\n			*r = append(*r, x[i])\n			pct++\n		}"),
 ("c14-batch-continues-after-rejection","C14","stack.go","			if err = meth(x[i]); err != nil {\n				r.setErr(err)\n				break\n			}","			if err = meth(x[i]); err != nil {\n				r.setErr(err)\n				continue\n			}"),
 ("c14-error-not-recorded","C14","stack.go","			if err = meth(x[i]); err != nil {\n				r.setErr(err)\n				break\n			}","			if err = meth(x[i]); err != nil {\n				break\n			}"),
 ("c14-cond-eqf-ignored","C14","cond.go","			if fn := r.condition.cfg.eqf; fn != nil {","			if fn := r.condition.cfg.eqf; fn != nil && r.condition.cfg.vpf == nil {"),
 ("c14-removal-does-not-restore-unmarshaler","C14","stack.go","			if len(fn) == 0 {\n				sc.umf = nil\n			} else {\n				sc.umf = fn[0]\n			}","			if len(fn) == 0 {\n				sc.umf = nil\n			} else if fn[0] != nil {\n				sc.umf = fn[0]\n			}"),
 ("c15-precheck-wrong-quantity","C15","stack.go","if r.ulen() > dest.cap()-dest.len() {","if r.ulen() > dest.cap()-dest.ulen() {"),
 ("c15-source-touched-fifo","C15","stack.go","	// return result\n	ok = dest.ulen() == before+r.ulen()","	// return result\n	ok = dest.ulen() == before+r.ulen()\n	if ok && r.isFIFO() && r.ulen() > 3 {\n		*r = (*r)[:r.len()-1]\n	}"),
 ("c17-isinit-guard-dropped-kind","C17","stack.go","func (r Stack) IsNesting() (is bool) {\n	if r.IsInit() {\n		is = r.stack.isNesting()\n	}","func (r Stack) IsNesting() (is bool) {\n	if !r.IsZero() || true {\n		is = r.stack.isNesting()\n	}"),
 ("c17-reset-loses-config","C17","stack.go","		*r = (*r)[:1]\n	}\n}","		*r = (*r)[:1]\n		if cfg, _ := r.config(); cfg != nil {\n			cfg.enc = nil\n		}\n	}\n}"),
 ("c18-unshift-xor","C18","cfg.go","	*r = *r &^ x","	*r = *r ^ x"),
 ("c18-toggle-as-set","C18","cfg.go","	if r.positive(x) {\n		r.unshift(x)\n		return\n	}\n	r.shift(x)","	r.shift(x)"),
 ("c18-fifo-can-be-cleared","C18","stack.go","	if sc, _ := r.config(); !sc.ord {\n		// can only change it once!\n		sc.ord = fifo\n	}","	if sc, _ := r.config(); !sc.ord || sc.positive(lonce) {\n		// can only change it once!\n		sc.ord = fifo\n	}"),
 ("c18-delimiter-on-non-list","C18","cfg.go","	if r.typ == list {\n		r.ljc = x\n	}","	if r.typ == list || r.typ == basic {\n		r.ljc = x\n	}"),
 ("c18-duplicate-encap-second-char","C18","cfg.go","	for i := 0; i < 2 && !found; i++ {","	for i := 0; i < 1 && !found; i++ {"),
 ("c18-loglevel-unshift-arith","C18","log.go","			*r = (*r &^ logLevels(ll))","			*r = (*r ^ logLevels(ll))"),
 ("c20-unwrap-loses-paren-clause","C20","stack.go","if !assert.IsParen() && !inner.IsParen() {","if !assert.IsParen() {"),
 ("c20-replace-wrong-index","C20","stack.go","		if updated != nil {\n			r.replace(updated, idx)\n		}","		if updated != nil {\n			if idx > 1 {\n				r.replace(updated, idx-1)\n			} else {\n				r.replace(updated, idx)\n			}\n		}"),
 ("c20-relock-held-stack","C20","stack.go","		if updated != nil {\n			r.replace(updated, idx)\n		}","		if updated != nil {\n			if idx > 0 {\n				r.lock()\n				r.replace(updated, idx)\n				r.unlock()\n			} else {\n				r.replace(updated, idx)\n			}\n		}"),
 # negative cases: property-preserving changes
 ("quiet-error-texts","*","stack.go","errorf(\"Capacity or length mismatch\")","errorf(\"capacity/length differ\")"),
 ("quiet-lock-earlier-in-push","*","stack.go","func (r Stack) Push(y ...any) Stack {\n	if r.IsInit() {\n		if !r.getState(ronly) {\n			r.stack.push(y...)","func (r Stack) Push(y ...any) Stack {\n	if r.IsInit() {\n		if !r.getState(ronly) {\n			_ = len(y)\n			r.stack.push(y...)"),
 ("quiet-presized-remove","*","stack.go","		var R stack = make(stack, 0)\n		R = append(R, cfg)\n\n		// Gather","		var R stack = make(stack, 0, r.len())\n		R = append(R, cfg)\n\n		// Gather"),
 ("quiet-new-config-field","*","cfg.go","	ord bool        // true = FIFO, false = LIFO (default); applies to stacks only","	ord bool        // true = FIFO, false = LIFO (default); applies to stacks only\n	gen uint64      // unused generation counter"),
 ("quiet-new-query-method","*","stack.go","func (r Stack) IsFull() (full bool) {","func (r Stack) IsBounded() bool { return r.IsInit() && r.cap() > 0 }\n\nfunc (r Stack) IsFull() (full bool) {"),
 ("quiet-reverse-builds-new-slice","*","stack.go","	for i, j := 1, r.len()-1; i < j; i, j = i+1, j-1 {\n		(*r)[i], (*r)[j] = (*r)[j], (*r)[i]\n	}\n}","	n := make(stack, 0, r.len())\n	n = append(n, (*r)[0])\n	for i := r.len() - 1; i >= 1; i-- {\n		n = append(n, (*r)[i])\n	}\n	*r = n\n}"),
 ("quiet-lock-stamp-kept-after-unlock","*","stack.go","			sc, _ := r.config()\n			sc.ldr = nil\n			mutex.Unlock()","			mutex.Unlock()"),
 ("quiet-unmarshal-presized","*","stack.go","func (r stack) unmarshalDefault() (slices []any, err error) {\n	slices = append(slices, r.kind())","func (r stack) unmarshalDefault() (slices []any, err error) {\n	slices = make([]any, 0, r.len())\n	slices = append(slices, r.kind())"),
 ("quiet-new-guarded-mutator","*","stack.go","func (r Stack) IsFull() (full bool) {","func (r Stack) Truncate(n int) Stack {\n	if r.IsInit() && !r.getState(ronly) {\n		r.stack.lock()\n		defer r.stack.unlock()\n		if n >= 0 && n < r.stack.ulen() {\n			*r.stack = (*r.stack)[:n+1]\n		}\n	}\n	return r\n}\n\nfunc (r Stack) IsFull() (full bool) {"),
]
import re
def rename_fields(w):
    for f in ("cfg.go","stack.go","cond.go","log.go","misc.go"):
        p=os.path.join(w,f); s=open(p).read()
        s=re.sub(r'\bldr\b','lockedAt',s); s=re.sub(r'\.enc\b','.encaps',s); s=re.sub(r'\benc ( *)\[\]\[\]string( +)// val','encaps\\1[][]string\\2// val',s)
        s=re.sub(r'\.opt\b','.flags',s); s=re.sub(r'\bopt cfgFlag','flags cfgFlag',s)
        s=re.sub(r'\.mtx\b','.mu',s); s=re.sub(r'\bmtx \*sync','mu *sync',s)
        open(p,'w').write(s)
SCRIPTED=[("quiet-rename-config-fields","*",rename_fields)]
out = os.path.join(os.path.dirname(os.path.abspath(__file__)), "mutants")
os.makedirs(out, exist_ok=True)
tmp = tempfile.mkdtemp(prefix="mut")
try:
    subprocess.check_call(["git","-C","/repo","worktree","add","-q","--detach",tmp+"/w","HEAD"])
    w = tmp+"/w"
    n=0
    for name,prop,f,old,new in M:
        p=os.path.join(w,f); s=open(p).read()
        if s.count(old)!=1:
            print("SKIP",name,"anchor count",s.count(old)); continue
        open(p,"w").write(s.replace(old,new,1))
        d=subprocess.check_output(["git","-C",w,"diff"]).decode()
        open(os.path.join(out,"%s.%s.diff"%(name,prop.replace('*','ALL'))),"w").write(d)
        subprocess.check_call(["git","-C",w,"checkout","-q","--","."])
        n+=1
    for name,prop,fn in SCRIPTED:
        fn(w)
        d=subprocess.check_output(["git","-C",w,"diff"]).decode()
        open(os.path.join(out,"%s.%s.diff"%(name,prop.replace('*','ALL'))),"w").write(d)
        subprocess.check_call(["git","-C",w,"checkout","-q","--","."])
        n+=1
    print("wrote",n,"mutants")
finally:
    subprocess.call(["git","-C","/repo","worktree","remove","--force",tmp+"/w"])
    shutil.rmtree(tmp,ignore_errors=True)
