#!/bin/sh
# selftest/run_mutants.sh [pattern]: every patch under selftest/mutants/ is applied to /repo in turn
# (restored afterwards), must compile and pass the repository's own suite, and must be caught by the
# quick tier of the property it breaks; quiet-* patches must raise no alarm in ANY check.
cd "$(dirname "$0")/.." || exit 2
ALL="C01 C03 C06 C08 C09 C10 C11 C13 C14 C15 C17 C18 C20"
for f in selftest/mutants/${1:-*}.diff; do
  b=$(basename "$f" .diff); name=${b%.*}; prop=${b##*.}
  if [ "$prop" = ALL ]; then ids=$ALL; else ids=$prop; fi
  res=$(selftest/try_mutant.sh "$PWD/$f" $ids 2>&1)
  suite=$(echo "$res" | grep -c "suite: passes")
  caught=$(echo "$res" | grep "^check" | grep -c "exit=1")
  infra=$(echo "$res" | grep "^check" | grep -c "exit=2")
  if [ "$prop" = ALL ]; then
    if [ "$caught" = 0 ] && [ "$infra" = 0 ] && [ "$suite" = 1 ]; then v=QUIET-OK; else v=FALSE-ALARM; fi
  else
    if [ "$suite" != 1 ]; then v=INVALID-MUTANT; elif [ "$caught" -ge 1 ]; then v=CAUGHT; else v=MISSED; fi
  fi
  echo "$v $name [$prop] $(echo "$res" | grep '^check' | grep -v 'exit=0' | head -2 | cut -c1-200 | tr '\n' ' ')"
  [ "$suite" != 1 ] && echo "$res" | head -8
done
