#!/bin/sh
# selftest/run_seeded.sh [pattern]: regression over every filed seeded change: apply, run the quick tier of the
# property's check, restore. One line per change.
cd "$(dirname "$0")/.." || exit 2
for d in seeded/${1:-*}/; do
  n=$(basename "$d"); id=${n%%-*}
  res=$(selftest/try_mutant.sh "$PWD/$d/patch.diff" $id 2>&1)
  if echo "$res" | grep -q "exit=1"; then v=CAUGHT; elif echo "$res" | grep -q "suite: passes"; then v=MISSED; else v=INVALID; fi
  echo "$v $n $(echo "$res" | grep '^check' | cut -c1-160)"
done
