#!/bin/sh
# selftest/seed_trial.sh <ID> <k> [extra check IDs]: takes the k-th change a sub-agent left in /tmp/wt/<ID>,
# confirms it (scratch worktree), runs the quick tier of the property's check (and any extra ones)
# against it, and files it under /verif/seeded/<ID>-<k>/ with meta.json.
ID=$1; K=$2; shift 2
cd "$(dirname "$0")/.." || exit 2
SRC=${SRCROOT:-/tmp/wt}/$ID
D=seeded/$ID-${OUTK:-$K}
mkdir -p "$D"
cp "$SRC/patch$K.diff" "$D/patch.diff"
cp "$SRC/demo${K}_test.go.txt" "$D/demo_test.go.txt"
[ -f "$SRC/NOTE.md" ] && cp "$SRC/NOTE.md" "$D/NOTE.md"
conf=$(selftest/confirm_seeded.sh "$PWD/$D/patch.diff" "$PWD/$D/demo_test.go.txt" $CONFIRM_FLAGS 2>&1)
res=$(selftest/try_mutant.sh "$PWD/$D/patch.diff" $ID "$@" 2>&1)
echo "$conf" | tail -1
echo "$res" | grep -E "^check|^suite|MUTANT"
python3 - "$ID" "$K" "$D" "$conf" "$res" <<'PY'
import sys,json,re
id,k,d,conf,res=sys.argv[1:6]
checks={}
for line in res.splitlines():
    m=re.match(r'check (\S+): exit=(\d+) violations=(\d+) ?(.*)',line)
    if m: checks[m.group(1)]={"exit":int(m.group(2)),"violation_lines":int(m.group(3)),"first":m.group(4)[:300]}
meta={"breaks_property":id,"change":"patch.diff (written by an independent sub-agent that saw only the property text)",
 "demonstration":"demo_test.go.txt (copy to demo_test.go in the package directory; fails with the change, passes without)",
 "needs_to_manifest":"see NOTE.md",
 "confirmed":{"by":"selftest/confirm_seeded.sh in a scratch worktree outside /repo and /verif","result":conf.strip().splitlines()},
 "own_suite_passes_with_change":"suite: passes with the change" in res,
 "checks_run":checks,
 "caught_by":[c for c,v in checks.items() if v["exit"]==1]}
json.dump(meta,open(d+"/meta.json","w"),indent=1)
print("caught_by:",meta["caught_by"])
PY
