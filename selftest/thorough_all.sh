#!/bin/sh
# selftest/thorough_all.sh [seed ...]: runs the thorough tier of every check for each VERIF_SEED given
# (default 1) on /repo as it is and appends one line per run to selftest/thorough.md.
cd "$(dirname "$0")/.." || exit 2
[ $# -eq 0 ] && set -- 1
[ -f selftest/thorough.md ] || printf '# Thorough-tier runs on the unchanged tree\n\n| date | repo HEAD | seed | property | exit | runs | distinct non-trivial | wall s | known findings | violations |\n|---|---|---|---|---|---|---|---|---|---|\n' > selftest/thorough.md
for seed in "$@"; do
  for id in C01 C03 C06 C08 C09 C10 C11 C13 C14 C15 C17 C18 C20; do
    VERIF_SEED=$seed ./run $id thorough > bin/thorough.$id.log 2>&1; rc=$?
    python3 - "$id" "$seed" "$rc" <<'PY' >> selftest/thorough.md
import json,sys,subprocess,datetime
id,seed,rc=sys.argv[1:4]
e=json.load(open('evidence/%s.json'%id)); c=e['coverage']
head=subprocess.check_output(['git','-C','/repo','rev-parse','--short','HEAD']).decode().strip()
print("| %s | %s | %s | %s | %s | %d | %d | %.0f | %s | %d |"%(datetime.date.today(),head,seed,id,rc,c['evaluations'],c['distinct_nontrivial'],e['wall_s'],', '.join(c['known_findings_seen']) or '-',e['violations']))
PY
    grep -E "^VIOLATION|^violation" bin/thorough.$id.log | cut -c1-300
  done
done
tail -15 selftest/thorough.md
