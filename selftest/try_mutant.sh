#!/bin/sh
# selftest/try_mutant.sh <patch.diff> <ID> [<ID>...]
# Applies a property-breaking patch to /repo, checks that the package builds and
# the repository's own suite still passes (tag off), runs the quick tier of the
# named checks, and ALWAYS restores /repo afterwards. Prints one line per check.
P=$1; shift
export GOFLAGS=-mod=mod GOPROXY=off GOSUMDB=off GOTOOLCHAIN=local
cd /repo || exit 2
if [ -n "$(git status --porcelain)" ]; then echo "try_mutant: /repo is not clean"; exit 2; fi
trap 'git -C /repo checkout -- . ; git -C /repo clean -fdq' EXIT INT TERM
git apply "$P" || { echo "try_mutant: patch does not apply"; exit 2; }
go build ./... >/dev/null 2>&1 || { echo "MUTANT does-not-compile"; exit 3; }
if ! go test -vet=off -count=1 ./... >/tmp/try_mutant_suite.log 2>&1; then echo "MUTANT fails-own-suite"; tail -5 /tmp/try_mutant_suite.log; exit 3; fi
echo "suite: passes with the change"
cd /verif
for id in "$@"; do
  out=$(${VERIF_SEED:+VERIF_SEED=$VERIF_SEED} ./run "$id" "${TIER:-quick}" 2>&1); rc=$?
  v=$(echo "$out" | grep -c '^VIOLATION')
  first=$(echo "$out" | grep '^violation' | head -1 | cut -c1-220)
  echo "check $id: exit=$rc violations=$v ${first}"
done
