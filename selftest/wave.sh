#!/bin/sh
# selftest/wave.sh <ID> [k ...]: files the changes a sub-agent left in $SRCROOT/<ID> (default /tmp/wt/<ID>) under the
# next free seeded/<ID>-<n>/ numbers, via seed_trial.sh (confirm in a scratch worktree, quick tier against the change).
cd "$(dirname "$0")/.." || exit 2
ID=$1; shift
[ $# -eq 0 ] && set -- 1 2
for k in "$@"; do
  [ -f "${SRCROOT:-/tmp/wt}/$ID/patch$k.diff" ] || { echo "$ID: no patch$k.diff"; continue; }
  n=$(ls -d seeded/$ID-* 2>/dev/null | sed "s/.*-//" | sort -n | tail -1); n=$((n+1))
  echo "== $ID change $k -> seeded/$ID-$n"
  OUTK=$n selftest/seed_trial.sh $ID $k
done
