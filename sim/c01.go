package main

import (
	"fmt"
	"math"
)

// C01 — ordered-list semantics under any operation history.

type c01 struct{ baseProp }

func init() { register(c01{}) }

func (c01) ID() string { return "C01" }
func (c01) Technique() string {
	return "deterministic simulation, sequential configuration: seeded operation/fault-event histories (FIFO latch, Reset, capacity exhaustion, index-option flips) checked operation by operation against the reference list model"
}
func (c01) Runs(tier string) int {
	if tier == "thorough" {
		return 15000000
	}
	return 600000
}
func (c01) Rule() string {
	return "history of 1-25 mutators (swarm subset of Push/Pop/Insert/Remove/Replace/Swap/Reverse/Reset/SetFIFO/index-option flips) on one stack of random kind/capacity/options, full re-observation (Len, IsEmpty, Index over -len-1..len+1, Front, Back) after every op; non-trivial = at least 3 ops of at least 2 different kinds that changed the content; distinct = hash(kind, options, op-kind sequence, lengths)"
}

func (c01) Gen(r *Rng, tier string, run int) *Trace {
	g := newHgen(r, "C01")
	cap := 0
	if r.Bool(0.4) {
		cap = r.Range(1, 6)
	}
	s0 := g.addStack(g.kind(), cap)
	s1 := g.addStack(g.kind(), 0)
	c2 := g.addCond("kw", 1, vStr("ex"))
	if r.Bool(0.3) {
		g.emit(Op{Obj: s0, M: "SetFIFO", Args: []Val{vBool(true)}}, true)
	}
	if r.Bool(0.3) {
		// the lock paths run in the sequential configuration too (a lock left held or asked for twice is detected)
		g.emit(Op{Obj: s0, M: "SetMutex"}, true)
	}
	if r.Bool(0.3) {
		g.emit(Op{Obj: s0, M: "SetNegativeIndices", Args: []Val{vBool(true)}}, true)
	}
	if r.Bool(0.3) {
		g.emit(Op{Obj: s0, M: "SetForwardIndices", Args: []Val{vBool(true)}}, true)
	}
	all := []string{"Push", "Push", "Pop", "Insert", "Remove", "Replace", "Swap", "Reverse", "Reset", "SetFIFO", "SetNegativeIndices", "SetForwardIndices"}
	var alpha []string
	for _, m := range all {
		if r.Bool(0.55) {
			alpha = append(alpha, m)
		}
	}
	if len(alpha) == 0 {
		alpha = all
	}
	nilRate := []float64{0, 0.1, 0.3}[r.Intn(3)]
	var used []Val
	val := func(allowNil bool) Val {
		if allowNil && r.Bool(nilRate) {
			return vNil()
		}
		switch r.Intn(14) {
		case 0:
			return vRef(s1, r.Intn(nDress))
		case 1:
			return vRef(c2, r.Intn(nDress))
		case 2:
			// a duplicate of a value already offered: positions, not values, identify elements
			if len(used) > 0 {
				return used[r.Intn(len(used))]
			}
		case 3:
			if r.Bool(0.2) {
				return vRef(s0, dAlias) // the stack's own handle as an element (only ever observed through Len/Index)
			}
		}
		v := g.plain()
		used = append(used, v)
		return v
	}
	if r.Bool(0.25) {
		// long enough for the backing array to have been reallocated a few times
		op := Op{Obj: s0, M: "Push"}
		for k := r.Range(5, 14); k > 0; k-- {
			op.Args = append(op.Args, val(true))
		}
		g.emit(op, true)
	}
	n := r.Range(1, 25)
	for i := 0; i < n; i++ {
		m := alpha[r.Intn(len(alpha))]
		L := g.lenOf(s0)
		op := Op{Obj: s0, M: m}
		switch m {
		case "Push":
			for k := r.Range(1, 3); k > 0; k-- {
				op.Args = append(op.Args, val(true))
			}
		case "Insert":
			pos := r.Range(-1, L+2)
			if r.Bool(0.08) {
				pos = []int{math.MaxInt, math.MinInt, math.MaxInt - 1, 1 << 40}[r.Intn(4)]
			}
			op.Args = []Val{val(false), vInt(pos)}
		case "Remove":
			if L == 0 {
				continue
			}
			op.Args = []Val{vInt(g.existing(s0, L))}
		case "Replace":
			if L == 0 {
				continue
			}
			op.Args = []Val{val(false), vInt(r.Intn(L))}
		case "Swap":
			if L == 0 {
				continue
			}
			op.Args = []Val{vInt(r.Intn(L)), vInt(r.Intn(L))}
		case "SetFIFO":
			op.Args = []Val{vBool(r.Bool(0.7))}
		case "SetNegativeIndices", "SetForwardIndices":
			if r.Bool(0.7) {
				op.Args = []Val{vBool(r.Bool(0.5))}
			}
		}
		g.emit(op, false)
	}
	return g.tr
}

// existing returns an index that addresses an existing position, using the
// negative / forward translations when they are enabled.
func (g *hgen) existing(s, L int) int {
	m := g.m.S[s]
	if m.Opt["negidx"] && g.r.Bool(0.3) {
		return -g.r.Range(1, L)
	}
	if m.Opt["fwdidx"] && g.r.Bool(0.2) {
		return L + g.r.Intn(3)
	}
	return g.r.Intn(L)
}

var c01keys = histKeys{content: true, fifo: true}

func (c01) Begin(x *Exec) { x.state = newHistState(x) }

func (c01) AfterOp(x *Exec, task, idx int, op Op, out Outcome) {
	st := x.state.(*histState)
	if out.Panic != "" {
		x.fail("panic:"+op.M, fmt.Sprintf("%s panicked: %s", op, out.Panic))
		return
	}
	before := st.m
	if why := st.stepModel(x, op, out, c01keys); why != "" {
		x.fail("model-mismatch:"+mismatchSite(op, why), fmt.Sprintf("after %s: %s (model before the call: %s)", op, why, before.S[op.Obj].key()))
		return
	}
	// which fault events of the history actually fired
	if b, a := before.S[op.Obj], st.m.S[op.Obj]; b != nil && a != nil && task >= 0 {
		switch op.M {
		case "Push":
			if len(a.Elems)-len(b.Elems) < len(op.Args) {
				x.fault("capacity-exhausted-by-Push")
			}
			for _, v := range op.Args {
				if v.K == "nil" {
					x.fault("nil-pushed")
					break
				}
			}
		case "Insert":
			if len(a.Elems) == len(b.Elems) {
				x.fault("capacity-refused-Insert")
			}
		case "Reset":
			for _, e := range b.Elems {
				if e.Nil {
					x.fault("reset-over-nil-elements")
					break
				}
			}
			x.fault("reset")
		case "SetFIFO":
			if a.Fifo && !b.Fifo {
				x.fault("fifo-latched")
			} else if b.Fifo && len(op.Args) > 0 && op.Args[0].I == 0 {
				x.fault("fifo-unlatch-refused")
			}
		case "Pop":
			if b.Fifo && len(b.Elems) > 0 {
				x.probe("fifo-pop")
			}
		}
	}
	histShape(x, st, op, before)
}

// histShape accumulates the shape signature and non-triviality of a
// sequential history.
func histShape(x *Exec, st *histState, op Op, before *MWorld) {
	changed := false
	if b, a := before.S[op.Obj], st.m.S[op.Obj]; b != nil && a != nil && b.key() != a.key() {
		changed = true
	}
	if b, a := before.C[op.Obj], st.m.C[op.Obj]; b != nil && a != nil && fmt.Sprint(*b) != fmt.Sprint(*a) {
		changed = true
	}
	ln := 0
	if a := st.m.S[op.Obj]; a != nil {
		ln = len(a.Elems)
	}
	x.stats.ShapeSig += fmt.Sprintf("%s%d%v,", op.M, ln, changed)
	if changed {
		x.stats.Probes["changing-ops"]++
		if x.stats.Probes["changing-ops"] >= 3 {
			x.stats.NonTrivial = true
		}
	}
}

func (c01) End(x *Exec) {
	st := x.state.(*histState)
	for i, m := range st.m.S {
		if m != nil {
			x.stats.ShapeSig += fmt.Sprintf("|%d:%s", i, m.Kind)
			if m.Fifo {
				x.stats.ShapeSig += "F"
			}
			if m.Cap > 0 {
				x.stats.ShapeSig += fmt.Sprintf("c%d", m.Cap)
			}
		}
	}
	delete(x.stats.Probes, "changing-ops")
}
