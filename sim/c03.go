package main

import (
	"fmt"
	"strings"
)

// C03 — a Stack created with capacity k never holds more than k elements.

type c03 struct{ baseProp }

func init() { register(c03{}) }

func (c03) ID() string { return "C03" }
func (c03) Technique() string {
	return "deterministic simulation: capacity exhaustion injected into seeded growth/shrink histories checked against the reference model after every op; plus 2-3 scheduled tasks on a mutex-enabled bounded stack with Len<=k asserted after every scheduler step"
}
func (c03) Runs(tier string) int {
	if tier == "thorough" {
		return 15000000
	}
	return 600000
}
func (c03) Rule() string {
	return "sequential: history of 1-25 growth (Push batches, Insert, Transfer-into, Marshal-into) and shrink (Pop, Remove, Reset) ops on a stack of capacity 1-5 (or none); Len/Cap/Avail/IsFull and content re-observed after every op. concurrent (25% of runs): 2-3 tasks x 1-3 such ops under the seeded scheduler. non-trivial = the capacity limit was actually hit by a growth op (sequential) or a context switch separated a growth op's start from its lock (concurrent); distinct = hash(capacity, op sequence with lengths / schedule)"
}
func (c03) WantsStepDumps() bool { return false }

func (c03) Gen(r *Rng, tier string, run int) *Trace {
	if r.Bool(0.25) {
		return c03conc(r)
	}
	g := newHgen(r, "C03")
	g.tr.Config = "seq"
	cap := 0
	if r.Bool(0.85) {
		cap = r.Range(1, 5)
		if r.Bool(0.1) {
			cap = r.Range(6, 10)
		}
	}
	s0 := g.addStack(g.kind(), cap)
	s1 := g.addStack(g.kind(), 0)
	if r.Bool(0.3) {
		g.emit(Op{Obj: s0, M: "SetFIFO", Args: []Val{vBool(true)}}, true)
	}
	if r.Bool(0.3) {
		// the lock paths run in the sequential configuration too (a lock left held or asked for twice is detected)
		g.emit(Op{Obj: s0, M: "SetMutex"}, true)
	}
	if r.Bool(0.2) {
		g.emit(Op{Obj: s1, M: "SetFIFO", Args: []Val{vBool(true)}}, true)
	}
	all := []string{"Push", "Push", "Insert", "Transfer", "Marshal", "Pop", "Remove", "Reset", "PushSrc", "PopSrc", "SetFIFO"}
	var alpha []string
	for _, m := range all {
		if r.Bool(0.6) {
			alpha = append(alpha, m)
		}
	}
	if len(alpha) == 0 {
		alpha = all
	}
	n := r.Range(1, 25)
	for i := 0; i < n; i++ {
		m := alpha[r.Intn(len(alpha))]
		L := g.lenOf(s0)
		switch m {
		case "Push":
			op := Op{Obj: s0, M: "Push"}
			for k := r.Range(1, 4); k > 0; k-- {
				if r.Bool(0.1) {
					op.Args = append(op.Args, vNil())
				} else {
					op.Args = append(op.Args, g.plain())
				}
			}
			g.emit(op, false)
		case "Insert":
			g.emit(Op{Obj: s0, M: "Insert", Args: []Val{g.plain(), vInt(r.Range(-1, L+1))}}, false)
		case "Transfer":
			g.emit(Op{Obj: s1, M: "Transfer", Args: []Val{vRef(s0, []int{dNative, dNative, dAlias, dPtrAlias}[r.Intn(4)])}}, false)
		case "Marshal":
			op := Op{Obj: s0, M: "Marshal", Args: []Val{vStr(r.PickStr("LIST", "AND", "or", "Not", "BASIC"))}}
			for k := r.Intn(3); k > 0; k-- {
				op.Args = append(op.Args, g.uv())
			}
			g.emit(op, false)
		case "Pop":
			g.emit(Op{Obj: s0, M: "Pop"}, false)
		case "Remove":
			if L > 0 {
				g.emit(Op{Obj: s0, M: "Remove", Args: []Val{vInt(r.Intn(L))}}, false)
			}
		case "Reset":
			g.emit(Op{Obj: s0, M: "Reset"}, false)
		case "PushSrc":
			op := Op{Obj: s1, M: "Push"}
			for k := r.Range(1, 3); k > 0; k-- {
				op.Args = append(op.Args, g.plain())
			}
			g.emit(op, false)
		case "PopSrc":
			g.emit(Op{Obj: s1, M: "Pop"}, false)
		case "SetFIFO":
			g.emit(Op{Obj: []int{s0, s1}[r.Intn(2)], M: "SetFIFO", Args: []Val{vBool(true)}}, false)
		}
	}
	return g.tr
}

func c03conc(r *Rng) *Trace {
	tr := &Trace{Prop: "C03", Config: "conc"}
	k := r.Range(1, 4)
	tr.Objs = []ObjSpec{{T: "S", Kind: kinds[r.Intn(len(kinds))], Cap: k}}
	tr.Setup = append(tr.Setup, Op{Obj: 0, M: "SetMutex"})
	uniq := 0
	nv := func() Val { uniq++; return vStr("v" + itoa(uniq)) }
	// start near the limit
	n0 := r.Range(0, k)
	if n0 > 0 {
		op := Op{Obj: 0, M: "Push"}
		for i := 0; i < n0; i++ {
			op.Args = append(op.Args, nv())
		}
		tr.Setup = append(tr.Setup, op)
	}
	for t := r.Range(2, 3); t > 0; t-- {
		var prog []Op
		for j := r.Range(1, 3); j > 0; j-- {
			switch r.Intn(6) {
			case 0, 1:
				prog = append(prog, Op{Obj: 0, M: "Insert", Args: []Val{nv(), vInt(r.Range(0, k))}})
			case 2, 3:
				op := Op{Obj: 0, M: "Push", Args: []Val{nv()}}
				if r.Bool(0.4) {
					op.Args = append(op.Args, nv())
				}
				prog = append(prog, op)
			case 4:
				prog = append(prog, Op{Obj: 0, M: "Pop"})
			case 5:
				prog = append(prog, Op{Obj: 0, M: "Remove", Args: []Val{vInt(r.Range(0, k-1))}})
			}
		}
		tr.Tasks = append(tr.Tasks, prog)
	}
	tr.Knobs.Stay = []float64{0.1, 0.5, 0.8}[r.Intn(3)]
	tr.Knobs.PreemptWant = []float64{0.5, 0.9}[r.Intn(2)]
	tr.Knobs.CfgYield = []int{0, 0, 3, 1}[r.Intn(4)]
	if r.Bool(0.35) {
		// an accept-everything push policy: foreign code running inside the
		// critical section, and a yield point there
		tr.Setup = append(tr.Setup, Op{Obj: 0, M: "SetPushPolicy", Args: []Val{vFn(2)}})
		tr.Knobs.PolicyYield = true
	}
	return tr
}

var c03keys = histKeys{content: true, cap: true}

func (c03) Begin(x *Exec) { x.state = newHistState(x) }

func (c03) AfterOp(x *Exec, task, idx int, op Op, out Outcome) {
	if out.Panic != "" {
		x.fail("panic:"+op.M, fmt.Sprintf("%s panicked: %s", op, out.Panic))
		return
	}
	st := x.state.(*histState)
	if x.tr.Config == "conc" && task >= 0 {
		return
	}
	before := st.m
	if why := st.stepModel(x, op, out, c03keys); why != "" {
		x.fail("model-mismatch:"+mismatchSite(op, why), fmt.Sprintf("after %s: %s (model before the call: %s)", op, why, before.S[op.Obj].key()))
		return
	}
	if x.tr.Config == "conc" {
		return
	}
	// reach: did a growth op really hit the limit?
	b, a := before.S[0], st.m.S[0]
	if b.Cap > 0 {
		grow := map[string]int{"Push": len(op.Args), "Insert": 1, "Marshal": 1}
		want := grow[op.M]
		if op.M == "Transfer" {
			want = len(before.S[op.Obj].Elems)
			if len(a.Elems) == len(b.Elems) && want > 0 {
				x.fault("capacity-refused-transfer")
				x.stats.NonTrivial = true
			}
		} else if op.Obj == 0 && want > 0 && len(a.Elems)-len(b.Elems) < want {
			x.fault("capacity-hit-by-" + op.M)
			x.stats.NonTrivial = true
			if op.M == "Push" && len(a.Elems) > len(b.Elems) {
				x.probe("capacity-hit-by-partial-batch")
			}
		}
	}
	x.stats.ShapeSig += fmt.Sprintf("%s%d,", op.M, len(a.Elems))
}

func (c03) AfterStep(x *Exec, t *task, ev event, pre []string, held map[uintptr]bool) {
	o := x.w.objs[0]
	if c := o.keep.Cap(); c > 0 && o.keep.Len() > c {
		x.fail("capacity-exceeded:"+x.opName(t), fmt.Sprintf("Len()=%d exceeds capacity %d after a step of task %d in %s (ending at %s)", o.keep.Len(), c, t.id, x.opName(t), ev.kind))
	}
}

func (c03) End(x *Exec) {
	st := x.state.(*histState)
	x.stats.ShapeSig += fmt.Sprintf("|cap%d", st.m.S[0].Cap)
	if x.tr.Config == "conc" {
		sw := 0
		for i := 1; i < len(x.sched); i++ {
			if x.sched[i] != x.sched[i-1] {
				sw++
			}
		}
		x.stats.NonTrivial = sw >= len(x.tasks)
		var sb strings.Builder
		for _, p := range x.tr.Tasks {
			for _, op := range p {
				sb.WriteString(op.M)
			}
			sb.WriteString("|")
		}
		x.stats.ShapeSig += sb.String() + fmt.Sprint(x.sched)
		if x.stats.NonTrivial {
			x.fault("preempted-between-check-and-lock")
		}
		o := x.w.objs[0]
		if o.keep.IsFull() {
			x.probe("ended-full")
		}
	}
}
