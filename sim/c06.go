package main

import "fmt"

// C06 — a Condition holds exactly what it accepted, and validity gates its rendering.

type c06 struct{ baseProp }

func init() { register(c06{}) }

func (c06) ID() string { return "C06" }
func (c06) Technique() string {
	return "deterministic simulation, sequential configuration: seeded setter histories over accepted and rejected arguments with the Err latch, no-nesting, read-only and Init events injected; Keyword/Operator/Expression, Valid and String checked against the reference model after every call"
}
func (c06) Runs(tier string) int {
	if tier == "thorough" {
		return 9000000
	}
	return 400000
}
func (c06) Rule() string {
	return "Condition created by Cond(kw,op,ex) with arbitrary (also invalid) arguments or by Init(); 1-15 calls of SetKeyword/SetOperator/SetExpression/SetErr/SetNoNesting/SetNoPadding/SetParen/SetEncap/SetReadOnly/Init with arguments from accepted and rejected classes (nil, empty, wrong type, nil operator, user operators with empty text/context, built-ins 0..7, stringers, stacks in every dress, conditions); non-trivial = at least one accepted and one rejected argument after the first call and the condition was valid at least once; distinct = hash(call sequence with argument classes and validity)"
}

func c06kw(g *hgen) Val {
	r := g.r
	switch r.Intn(8) {
	case 0:
		return vStr("")
	case 1:
		return vNil()
	case 2:
		return vInt(7)
	case 3:
		return Val{K: "strer", S: "sk" + itoa(r.Intn(9))}
	case 4:
		if r.Bool(0.5) {
			return Val{K: "strer", S: "", D: 1} // non-zero stringer, empty text
		}
		if r.Bool(0.5) {
			return Val{K: "nstr", S: "ns" + itoa(r.Intn(5)), D: r.Intn(2)} // named string types
		}
		return vAwk([]int{0, 1, 2, 3, 19, 23}[r.Intn(6)]) // typed-nil pointers: ignored
	}
	g.uniq++
	if r.Bool(0.1) {
		return vStr(" k" + itoa(g.uniq))
	}
	return vStr("k" + itoa(g.uniq))
}

func c06op(g *hgen) Val {
	r := g.r
	switch r.Intn(10) {
	case 0:
		return vNil()
	case 1:
		return Val{K: "uop", S: ""}
	case 2:
		return Val{K: "uop", S: "~=", D: 1}
	case 3:
		return Val{K: "uop", S: []string{"~=", "has", "=>"}[r.Intn(3)]}
	case 4:
		return vOp([]int{0, 7, 200, 9, 12, 14, 255, 8}[r.Intn(8)])
	case 5:
		if r.Bool(0.5) {
			return Val{K: "fop", S: "f" + itoa(r.Intn(2))}
		}
	}
	return vOp(r.Range(1, 6))
}

func c06ex(g *hgen, stacks []int, conds []int) Val {
	r := g.r
	switch r.Intn(12) {
	case 0:
		return vStr("")
	case 1:
		return vNil()
	case 2:
		return vInt(r.Range(-3, 40))
	case 3:
		return []Val{vBool(r.Bool(0.5)), {K: "f", I: int64(r.Range(-9, 30))}, {K: "rune", I: int64(r.Range(65, 90))}}[r.Intn(3)]
	case 4, 5:
		return vRef(stacks[r.Intn(len(stacks))], r.Intn(nDress))
	case 6:
		return vRef(conds[r.Intn(len(conds))], r.PickInt(dNative, dAliasStr, dAlias))
	case 7:
		return Val{K: "strer", S: "se" + itoa(r.Intn(9))}
	case 8:
		if r.Bool(0.5) {
			return Val{K: "pstr", S: []string{"p1", "p2", ""}[r.Intn(3)]}
		}
	}
	g.uniq++
	if r.Bool(0.15) {
		// blanks at the edges are part of the value
		return vStr([]string{" lead", "trail ", "\ttab", "nl\n", "  "}[r.Intn(5)] + []string{"", " "}[r.Intn(2)])
	}
	return vStr([]string{"e", "two words ", "Ünï"}[r.Intn(3)] + itoa(g.uniq))
}

// flipGen: generation-time text of the flip operators
var flipGen = map[string]string{}

func (c06) Gen(r *Rng, tier string, run int) *Trace {
	for k := range flipGen { // order-free: cleared
		delete(flipGen, k)
	}
	for k := range flipNow { // order-free: cleared
		delete(flipNow, k)
	}
	g := newHgen(r, "C06")
	s0 := g.addStack(g.kind(), 0)
	s1 := g.addStack(g.kind(), 0)
	inner := g.addCond("ik", 1, vStr("iv"))
	g.emit(Op{Obj: s0, M: "Push", Args: []Val{g.uv(), g.uv()}}, true)
	if r.Bool(0.5) {
		g.emit(Op{Obj: s0, M: "SetParen", Args: []Val{vBool(true)}}, true)
	}
	// an incomplete Condition (keyword only): a perfectly good non-nil expression
	g.tr.Objs = append(g.tr.Objs, ObjSpec{T: "IC"})
	g.m.S = append(g.m.S, nil)
	g.m.C = append(g.m.C, newMCond(ObjSpec{T: "IC"}, nil))
	half := len(g.tr.Objs) - 1
	g.emit(Op{Obj: half, M: "SetKeyword", Args: []Val{vStr("half")}}, true)
	stacks, conds := []int{s0, s1}, []int{inner, half}
	var c int
	if r.Bool(0.3) {
		g.tr.Objs = append(g.tr.Objs, ObjSpec{T: "IC"})
		g.m.S = append(g.m.S, nil)
		g.m.C = append(g.m.C, newMCond(ObjSpec{T: "IC"}, nil))
		c = len(g.tr.Objs) - 1
	} else {
		kw, op, ex := c06kw(g), c06op(g), c06ex(g, stacks, conds)
		spec := ObjSpec{T: "C", Kw: &kw, Op: &op, Ex: &ex}
		g.tr.Objs = append(g.tr.Objs, spec)
		g.m.S = append(g.m.S, nil)
		g.m.C = append(g.m.C, newMCond(spec, genElem(g.tr.Objs)))
		c = len(g.tr.Objs) - 1
	}
	tri := func(op *Op) {
		switch r.Intn(3) {
		case 0:
			op.Args = []Val{vBool(true)}
		case 1:
			op.Args = []Val{vBool(false)}
		}
	}
	n := r.Range(1, 15)
	for i := 0; i < n; i++ {
		if g.m.C[c].Opt["ronly"] && r.Bool(0.5) {
			g.emit(Op{Obj: c, M: "SetReadOnly", Args: []Val{vBool(false)}}, false)
			continue
		}
		switch r.Intn(20) {
		case 0, 1, 2:
			g.emit(Op{Obj: c, M: "SetKeyword", Args: []Val{c06kw(g)}}, false)
		case 3, 4, 5:
			g.emit(Op{Obj: c, M: "SetOperator", Args: []Val{c06op(g)}}, false)
		case 6, 7, 8, 9, 10:
			g.emit(Op{Obj: c, M: "SetExpression", Args: []Val{c06ex(g, stacks, conds)}}, false)
		case 11, 12:
			if r.Bool(0.6) {
				g.emit(Op{Obj: c, M: "SetErr", Args: []Val{vErr("")}}, false)
			} else {
				g.emit(Op{Obj: c, M: "SetErr", Args: []Val{vErr("latch" + itoa(i))}}, false)
			}
		case 13:
			op := Op{Obj: c, M: r.PickStr("SetNoNesting", "NoNesting")}
			tri(&op)
			g.emit(op, false)
		case 14:
			op := Op{Obj: c, M: r.PickStr("SetNoPadding", "NoPadding")}
			tri(&op)
			g.emit(op, false)
		case 15:
			op := Op{Obj: c, M: r.PickStr("SetParen", "Paren")}
			tri(&op)
			g.emit(op, false)
		case 16:
			op := Op{Obj: c, M: "SetEncap"}
			for k := r.Intn(3); k > 0; k-- {
				op.Args = append(op.Args, g.encArg())
			}
			g.emit(op, false)
		case 17:
			g.emit(Op{Obj: c, M: "SetReadOnly", Args: []Val{vBool(true)}}, false)
		case 18:
			g.emit(Op{Obj: c, M: "Init"}, false)
		case 19:
			if r.Bool(0.5) {
				// a user-defined operator changes its text after it was accepted:
				// it is still "present"
				name := "f" + itoa(r.Intn(2))
				text := []string{"", "~" + name, "=~"}[r.Intn(3)]
				g.tr.Tasks[0] = append(g.tr.Tasks[0], Op{Obj: -1, M: "world.setop", Args: []Val{vStr(name), vStr(text)}})
				flipGen[name] = text
			} else {
				// change the nested stack: the rendering is compositional
				g.emit(Op{Obj: s0, M: "Push", Args: []Val{g.uv()}}, false)
			}
		}
	}
	return g.tr
}

var c06keys = histKeys{condFull: true, content: true}

type c06state struct {
	*histState
	accepted, rejected, valid bool
}

func (c06) Begin(x *Exec) {
	for k := range flipNow { // order-free: cleared
		delete(flipNow, k)
	}
	x.state = &c06state{histState: newHistState(x)}
}

func (c06) AfterSetup(x *Exec) {
	// the constructor is the first call of the history: judge it at once
	st := x.state.(*c06state)
	for i, m := range st.m.C {
		if m != nil && m.Live {
			if d := cmpCond(x, i, m, c06keys); d != "" {
				op := Op{Obj: i, M: "Cond"}
				x.fail("model-mismatch:"+mismatchSite(op, d), fmt.Sprintf("right after construction (%+v): %s: %s", describeSpec(x.tr.Objs[i]), x.w.objs[i].name, d))
				return
			}
		}
	}
}

func describeSpec(s ObjSpec) string {
	if s.T != "C" {
		return s.T
	}
	return fmt.Sprintf("Cond(%v, %v, %v)", *s.Kw, *s.Op, *s.Ex)
}

func (c06) AfterOp(x *Exec, task, idx int, op Op, out Outcome) {
	st := x.state.(*c06state)
	if out.Panic != "" {
		x.fail("panic:"+op.M, fmt.Sprintf("%s panicked: %s", op, out.Panic))
		return
	}
	if op.M == "world.setop" {
		if len(op.Args) == 2 {
			flipNow[op.Args[0].S] = op.Args[1].S
		}
		// every Condition holding that operator is looked at again
		for i, m := range st.m.C {
			if m != nil && m.Live {
				if d := cmpCond(x, i, m, c06keys); d != "" {
					x.fail("model-mismatch:"+mismatchSite(Op{M: "operator-text-change"}, d), fmt.Sprintf("after the text of user operator %s became %q: %s: %s", op.Args[0].S, op.Args[1].S, x.w.objs[i].name, d))
					return
				}
			}
		}
		return
	}
	before := st.m
	if why := st.stepModel(x, op, out, c06keys); why != "" {
		x.fail("model-mismatch:"+mismatchSite(op, why), fmt.Sprintf("after %s: %s", op, why))
		return
	}
	if task < 0 {
		return
	}
	if b, a := before.C[op.Obj], st.m.C[op.Obj]; b != nil && a != nil {
		switch op.M {
		case "SetKeyword", "SetOperator", "SetExpression":
			if b.Kw != a.Kw || b.Op != a.Op || b.Ex.D != a.Ex.D || b.ExSet != a.ExSet {
				st.accepted = true
			} else {
				st.rejected = true
				x.fault("rejected-argument:" + op.M)
				if b.Err != "nil" && op.M == "SetExpression" {
					x.probe("refused-by-err-latch")
				}
			}
		}
		if a.valid() {
			st.valid = true
		}
		x.stats.NonTrivial = st.accepted && st.rejected && st.valid
		cls := ""
		for _, v := range op.Args {
			cls += v.K
		}
		x.stats.ShapeSig += fmt.Sprintf("%s(%s)%v,", op.M, cls, a.valid())
	}
}
