package main

import (
	"fmt"
	"math"
)

// C08 — no index and no element value can panic or corrupt a Stack.

type c08 struct{ baseProp }

func init() { register(c08{}) }

func (c08) ID() string { return "C08" }
func (c08) Technique() string {
	return "deterministic simulation, sequential configuration: hostile requests (boundary indices, awkward Go values) injected as faults between good operations of a seeded history; survival of content, configuration and usability checked against the reference model for the rest of the history"
}
func (c08) Runs(tier string) int {
	if tier == "thorough" {
		return 4500000
	}
	return 200000
}
func (c08) Rule() string {
	return "history of 3-25 ops on a stack of length 0-4 (all index-option settings): ~65% good mutators, ~35% hostile requests = int-taking methods with indices from {MinInt, -Len-1..Len+1, MaxInt} and any-taking methods of Stack and Condition with the 27-value awkward catalogue (typed nils of depth 1-3, zero Stack/Condition and aliases, funcs, chans, maps, NaN, private-field structs, pointers to pointers), followed by queries over the polluted stack; non-trivial = at least 2 hostile requests fired and at least 2 good mutators followed the first; distinct = hash(op sequence with arguments classes and lengths)"
}

var hostileInts = func(L int, r *Rng) int {
	switch r.Intn(8) {
	case 0:
		return math.MinInt
	case 1:
		return math.MaxInt
	case 2:
		return math.MinInt + 1
	case 3:
		return math.MaxInt - 1
	}
	return r.Range(-L-1, L+1)
}

func (c08) Gen(r *Rng, tier string, run int) *Trace {
	g := newHgen(r, "C08")
	cap := 0
	if r.Bool(0.3) {
		cap = r.Range(2, 6)
	}
	s0 := g.addStack(g.kind(), cap)
	s1 := g.addStack(g.kind(), 0)
	c2 := g.addCond("kw", 1, vStr("ex"))
	c2b := g.addCond("kw", 1, vStr("ex")) // same keyword and operator: IsEqual gets as far as the expressions
	for _, o := range []string{"SetNegativeIndices", "SetForwardIndices"} {
		if r.Bool(0.5) {
			g.emit(Op{Obj: s0, M: o, Args: []Val{vBool(true)}}, true)
		}
	}
	if r.Bool(0.3) {
		g.emit(Op{Obj: s0, M: "SetFIFO", Args: []Val{vBool(true)}}, true)
	}
	if r.Bool(0.2) {
		g.emit(Op{Obj: s0, M: "SetNoNesting", Args: []Val{vBool(true)}}, true)
	}
	if r.Bool(0.3) {
		// the lock paths run in the sequential configuration too (a lock left held or asked for twice is detected)
		g.emit(Op{Obj: s0, M: "SetMutex"}, true)
	}
	if n0 := r.Range(0, 4); n0 > 0 {
		op := Op{Obj: s0, M: "Push"}
		for i := 0; i < n0; i++ {
			op.Args = append(op.Args, g.plain())
		}
		g.emit(op, true)
	}
	g.emit(Op{Obj: s1, M: "Push", Args: []Val{g.plain(), g.plain()}}, true)
	// a parent that nests the stack under attack (native, alias or pointer):
	// whatever lands in s0 is also met one level deeper by the parent's queries
	parent := g.addStack(g.kind(), 0)
	g.emit(Op{Obj: parent, M: "Push", Args: []Val{g.plain(), vRef(s0, r.Intn(nDress)), vRef(c2, r.PickInt(dNative, dAlias, dPtrNative))}}, true)
	awk := func() Val { return vAwk(r.Intn(nAwk)) }
	// a mirror stack receives every mutator s0 receives, so that IsEqual(s0, mirror)
	// walks over two independent copies of whatever awkward content s0 now holds
	mirror := g.addStack(g.tr.Objs[s0].Kind, g.tr.Objs[s0].Cap)
	for _, op := range append([]Op(nil), g.tr.Setup...) {
		if op.Obj == s0 {
			m := op
			m.Obj = mirror
			g.emit(m, true)
		}
	}
	emit0 := func(op Op) {
		g.emit(op, false)
		op = g.last
		if op.Obj == s0 && op.Tag != "hq" && op.Tag != "hc" && op.Tag != "hu" {
			m := op
			m.Obj = mirror
			m.Tag = "m"
			// the mirror gets the SIBLING of some awkward values (a map of the
			// same type and length with another key): comparable, not equal
			m.Args = append([]Val(nil), op.Args...)
			for i, a := range m.Args {
				if a.K == "awk" && r.Bool(0.5) {
					if sib, ok := awkSibling(int(a.I)); ok {
						m.Args[i] = vAwk(sib)
					}
				}
			}
			g.emit(m, false)
		}
	}
	n := r.Range(3, 25)
	for i := 0; i < n; i++ {
		L := g.lenOf(s0)
		if r.Bool(0.65) {
			// a good operation
			switch r.Intn(8) {
			case 0, 1, 2:
				op := Op{Obj: s0, M: "Push", Args: []Val{g.plain()}}
				if r.Bool(0.3) {
					op.Args = append(op.Args, vRef(s1, r.Intn(nDress)))
				}
				if r.Bool(0.2) {
					op.Args = append(op.Args, vRef(c2, r.Intn(nDress)))
				}
				emit0(op)
			case 3:
				emit0(Op{Obj: s0, M: "Pop"})
			case 4:
				emit0(Op{Obj: s0, M: "Insert", Args: []Val{g.plain(), vInt(r.Range(0, L))}})
			case 5:
				if L > 0 {
					emit0(Op{Obj: s0, M: "Remove", Args: []Val{vInt(r.Intn(L))}})
				}
			case 6:
				if L > 0 {
					emit0(Op{Obj: s0, M: "Replace", Args: []Val{g.plain(), vInt(r.Intn(L))}})
				}
			case 7:
				if r.Bool(0.5) {
					emit0(Op{Obj: s0, M: "Reverse"})
				} else {
					// setting or clearing an index option that may already be in that state
					emit0(Op{Obj: s0, M: r.PickStr("SetNegativeIndices", "SetForwardIndices"), Args: []Val{vBool(r.Bool(0.4))}})
				}
			}
			continue
		}
		// a hostile request
		switch r.Intn(22) {
		case 0, 1:
			emit0(Op{Obj: s0, M: "Index", Args: []Val{vInt(hostileInts(L, r))}, Tag: "hq"})
		case 2, 3:
			emit0(Op{Obj: s0, M: "Remove", Args: []Val{vInt(hostileInts(L, r))}, Tag: "h"})
		case 4, 5:
			emit0(Op{Obj: s0, M: "Replace", Args: []Val{g.plain(), vInt(hostileInts(L, r))}, Tag: "h"})
		case 6, 7:
			emit0(Op{Obj: s0, M: "Swap", Args: []Val{vInt(hostileInts(L, r)), vInt(hostileInts(L, r))}, Tag: "h"})
		case 8:
			emit0(Op{Obj: s0, M: "Insert", Args: []Val{g.plain(), vInt(hostileInts(L, r))}, Tag: "h"})
		case 9:
			op := Op{Obj: s0, M: "Traverse", Tag: "hq"}
			for k := r.Range(0, 3); k > 0; k-- {
				op.Args = append(op.Args, vInt(hostileInts(L, r)))
			}
			g.emit(op, false)
		case 10:
			emit0(Op{Obj: s0, M: "Less", Args: []Val{vInt(hostileInts(L, r)), vInt(hostileInts(L, r))}, Tag: "hq"})
		case 11, 12:
			op := Op{Obj: s0, M: "Push", Args: []Val{awk()}, Tag: "h"}
			if r.Bool(0.3) {
				op.Args = append(op.Args, awk())
			}
			emit0(op)
		case 13:
			emit0(Op{Obj: s0, M: "Insert", Args: []Val{awk(), vInt(r.Range(-1, L+1))}, Tag: "h"})
		case 14:
			if L > 0 {
				emit0(Op{Obj: s0, M: "Replace", Args: []Val{awk(), vInt(r.Intn(L))}, Tag: "h"})
			}
		case 15:
			emit0(Op{Obj: s0, M: "Transfer", Args: []Val{awk()}, Tag: "h"})
		case 16:
			emit0(Op{Obj: s0, M: "IsEqual", Args: []Val{[]Val{awk(), vRef(s1, r.Intn(nDress)), vRef(c2, 0), vRef(mirror, r.Intn(nDress)), vRef(mirror, 0)}[r.Intn(5)]}, Tag: "hq"})
		case 17:
			m := r.PickStr("SetDelimiter", "SetEncap", "SetSymbol", "SetLogger")
			a := awk()
			if m == "SetEncap" && r.Bool(0.4) {
				a = vStrs() // an empty pair
			}
			emit0(Op{Obj: s0, M: m, Args: []Val{a}, Tag: "hu"})
		case 18:
			// condition-side hostile setters
			switch r.Intn(4) {
			case 0:
				g.emit(Op{Obj: c2, M: "SetKeyword", Args: []Val{awk()}, Tag: "hc"}, false)
			case 1:
				g.emit(Op{Obj: c2, M: "SetOperator", Args: []Val{[]Val{vNil(), {K: "uop", S: ""}, {K: "uop", S: "~", D: 1}, vOp(0), vOp(9)}[r.Intn(5)]}, Tag: "hc"}, false)
			case 2:
				c := []int{c2, c2b}[r.Intn(2)]
				g.emit(Op{Obj: c, M: "SetErr", Args: []Val{vErr("")}, Tag: "hc"}, false)
				ex := awk()
				if r.Bool(0.3) {
					// stack-like nothings as expression: what traversal and rendering descend into
					ex = vAwk([]int{4, 16, 15, 1, 13, 26}[r.Intn(6)])
				}
				g.emit(Op{Obj: c, M: "SetExpression", Args: []Val{ex}, Tag: "hc"}, false)
			case 3:
				g.emit(Op{Obj: c2, M: "IsEqual", Args: []Val{[]Val{awk(), vRef(s0, 0), vRef(c2, r.Intn(nDress)), vRef(c2b, r.Intn(nDress)), vRef(c2b, 0)}[r.Intn(5)]}, Tag: "hc"}, false)
			}
		case 19:
			// a Condition whose expression is a stack-like nothing, then a path through it
			g.emit(Op{Obj: c2, M: "SetErr", Args: []Val{vErr("")}, Tag: "hc"}, false)
			g.emit(Op{Obj: c2, M: "SetExpression", Args: []Val{vAwk([]int{4, 16, 15, 1, 13, 26, 5, 24}[r.Intn(8)])}, Tag: "hc"}, false)
			g.emit(Op{Obj: parent, M: "Traverse", Args: []Val{vInt(2), vInt(r.Range(0, 1)), vInt(0)}[:r.Range(2, 3)], Tag: "hc"}, false)
		default:
			// queries over whatever the stack now holds
			m := r.PickStr("String", "Unmarshal", "IsNesting", "Valid", "Front", "Back", "Kind", "Len")
			o := []int{s0, s0, c2, parent, parent}[r.Intn(5)]
			op := Op{Obj: o, M: m, Tag: "hc"}
			if o == parent && r.Bool(0.4) {
				op = []Op{
					{Obj: parent, M: "Traverse", Args: []Val{vInt(1), vInt(hostileInts(L, r))}, Tag: "hc"},
					{Obj: parent, M: "Traverse", Args: []Val{vInt(1), vInt(r.Range(0, L)), vInt(0)}, Tag: "hc"},
					{Obj: parent, M: "Traverse", Args: []Val{vInt(2), vInt(r.Range(0, 2))}, Tag: "hc"},
					{Obj: parent, M: "Traverse", Args: []Val{vInt(2), vInt(0), vInt(r.Range(0, 1))}, Tag: "hc"},
					{Obj: parent, M: "IsEqual", Args: []Val{vRef(parent, r.Intn(nDress))}, Tag: "hc"},
					{Obj: parent, M: "IsEqual", Args: []Val{vRef(s1, 0)}, Tag: "hc"},
				}[r.Intn(6)]
			}
			g.emit(op, false)
		}
	}
	return g.tr
}

var c08keys = histKeys{content: true, fifo: true, noCond: true}

type c08state struct {
	*histState
	dumps   []string
	hostile int
	goodAft int
}

func (c08) Begin(x *Exec)      { x.state = &c08state{histState: newHistState(x)} }
func (c08) AfterSetup(x *Exec) { x.state.(*c08state).dumps = x.w.snapshot() }

func (c08) AfterOp(x *Exec, task, idx int, op Op, out Outcome) {
	st := x.state.(*c08state)
	w := x.w
	if out.Panic != "" {
		x.fail("panic:"+op.M+":"+panicWhere(out.Panic), fmt.Sprintf("%s panicked: %s", op, out.Panic))
		return
	}
	if task < 0 {
		if why := st.stepModel(x, op, out, c08keys); why != "" {
			x.fail("model-mismatch:"+mismatchSite(op, why), fmt.Sprintf("after %s: %s", op, why))
		}
		st.dumps = w.snapshot()
		return
	}
	var now []string
	m := st.m.S[0]
	switch op.Tag {
	case "hq", "hc", "hu":
		now = w.snapshot()
		// queries, condition-side calls and unmodelled setters: must return
		// normally, leave every instance initialised, and leave the content alone
		for i, o := range w.objs {
			if o.T == 'S' && !o.keep.IsZero() && !o.keep.IsInit() {
				x.fail("cfg-lost:"+op.M, fmt.Sprintf("%s left %s uninitialised: %s", op, o.name, now[i]))
				return
			}
		}
		if op.Tag == "hq" && now[op.Obj] != st.dumps[op.Obj] {
			x.fail("dump-changed:"+op.M, fmt.Sprintf("query %s changed its receiver:\n before: %s\n after:  %s", op, st.dumps[op.Obj], now[op.Obj]))
			return
		}
		if op.Obj == 0 && (op.M == "Index" || (op.M == "Traverse" && len(op.Args) > 0)) {
			i := int(op.Args[0].I)
			p, ok := m.resolve(i)
			if !ok || m.Elems[p].Nil {
				if len(out.Ret) != 2 || out.Ret[0] != "nil" || out.Ret[1] != "false" {
					x.fail("model-mismatch:"+op.M+":result", fmt.Sprintf("%s addresses no existing element of %s but returned %s", op, m.key(), out))
					return
				}
			} else if op.M == "Index" && (out.Ret[0] != m.Elems[p].D || out.Ret[1] != "true") {
				x.fail("model-mismatch:"+op.M+":result", fmt.Sprintf("%s on %s returned %s", op, m.key(), out))
				return
			}
		}
		if op.M == "Traverse" && len(op.Args) == 0 && (out.Ret[0] != "nil" || out.Ret[1] != "false") {
			x.fail("model-mismatch:Traverse:result", fmt.Sprintf("an empty path returned %s", out))
			return
		}
		if d := cmpStack(x, 0, m, c08keys); d != "" {
			x.fail("model-mismatch:"+op.M+":content", fmt.Sprintf("after %s: %s", op, d))
			return
		}
	default:
		before := st.m
		if why := st.stepModel(x, op, out, c08keys); why != "" {
			x.fail("model-mismatch:"+mismatchSite(op, why), fmt.Sprintf("after %s: %s (model before: %s)", op, why, before.S[0].key()))
			return
		}
		now = st.prev // the snapshot stepModel has just taken
		if op.Tag == "h" && op.Obj == 0 && before.S[0].key() == st.m.S[0].key() && now[0] != st.dumps[0] {
			// a refused request must leave content and configuration exactly as they were
			x.fail("dump-changed:"+op.M, fmt.Sprintf("refused request %s changed the stack:\n before: %s\n after:  %s", op, st.dumps[0], now[0]))
			return
		}
	}
	st.prev = now
	if op.Tag != "" {
		st.hostile++
		x.fault("hostile:" + op.M)
	} else if st.hostile > 0 {
		st.goodAft++
	}
	if st.hostile >= 2 && st.goodAft >= 2 {
		x.stats.NonTrivial = true
	}
	st.dumps = now
	cls := ""
	for _, a := range op.Args {
		cls += a.K[:1]
		if a.K == "awk" {
			cls += itoa(int(a.I))
		}
	}
	x.stats.ShapeSig += fmt.Sprintf("%d.%s(%s)%d,", op.Obj, op.M, cls, len(st.m.S[0].Elems))
}

// panicWhere extracts the library function a panic surfaced in.
func panicWhere(p string) string {
	for i := len(p) - 1; i >= 0; i-- {
		if p[i] == '@' {
			return p[i+1:]
		}
	}
	return "?"
}
