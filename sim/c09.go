package main

import (
	"fmt"
	"regexp"
	"strings"
)

// C09 — a read-only Stack or Condition cannot be changed.

type c09 struct{ baseProp }

func init() { register(c09{}) }

func (c09) ID() string { return "C09" }
func (c09) Technique() string {
	return "deterministic simulation: the read-only fence raised at a seeded instant of a history, a burst over the full reflective method alphabet (by one task, or 2-3 scheduled tasks), fence lowered; raw state dump compared with the dump at the fence after every call / scheduler step"
}
func (c09) Runs(tier string) int {
	if tier == "thorough" {
		return 9000000
	}
	return 600000
}
func (c09) Rule() string {
	return "world built by a seeded history (nested stacks/conditions, random options, policies, mutex); SetReadOnly(true) on a random Stack or Condition; burst of 2-9 calls drawn from EVERY exported method (reflection) with 3 systematically different argument variants per chosen method, on the fenced object or on neighbours with the fenced object as argument; 30% of runs issue the burst from 2-3 tasks under the scheduler; then SetReadOnly(false) and mutators that must work again. non-trivial = at least 2 different mutator methods were attempted under the fence; distinct = hash(fenced kind, method+variant sequence)"
}
func (c09) WantsStepDumps() bool { return false }

func (c09) Gen(r *Rng, tier string, run int) *Trace {
	g := newHgen(r, "C09")
	w := buildRich(g)
	all := append(append([]int{}, w.stacks...), w.conds...)
	target := all[r.Intn(len(all))]
	kind := byte('S')
	if g.m.S[target] == nil {
		kind = 'C'
	}
	g.emit(Op{Obj: target, M: "SetReadOnly", Args: []Val{vBool(true)}, Tag: "fence"}, true)
	ctx := &synthCtx{self: target, stacks: w.stacks, conds: w.conds, uniq: &g.uniq, sink: w.sink, fenced: true}
	if kind == 'S' {
		ctx.lenHint = g.lenOf(target)
	}
	ms := methodsInfo(kind)
	var burst []Op
	nm := r.Range(1, 3)
	for k := 0; k < nm; k++ {
		m := ms[r.Intn(len(ms))]
		// prefer mutators and unknowns: that is where a forgotten guard lives
		if classOf(m.Name) == "query" && r.Bool(0.7) {
			m = ms[r.Intn(len(ms))]
		}
		v0 := r.Intn(3)
		for v := 0; v < 3; v++ {
			op := Op{Obj: target, M: m.Name, Args: synthArgs(r, m, ctx, v0+v), Tag: "burst"}
			if (m.Name == "SetReadOnly" || m.Name == "ReadOnly") && (len(op.Args) == 0 || op.Args[0].I == 0) {
				op.Args = []Val{vBool(true)} // the burst itself never lowers the fence
			}
			if m.Name == "Init" {
				if k != nm-1 {
					continue // Init replaces the instance: only as the last call
				}
			}
			burst = append(burst, op)
			if len(m.Type.String()) < 30 && m.Type.NumIn() == 0 {
				break // niladic: one call is enough
			}
		}
	}
	// calls on neighbours and ancestors: whatever they legitimately do to
	// themselves, the read-only instance (perhaps nested in them) stays as it is
	if r.Bool(0.35) {
		var others []int
		for _, s := range append(append([]int{}, w.stacks...), w.conds...) {
			if s != target {
				others = append(others, s)
			}
		}
		o := others[r.Intn(len(others))]
		okind := byte('S')
		if g.m.S[o] == nil {
			okind = 'C'
		}
		octx := &synthCtx{self: o, stacks: w.stacks, conds: w.conds, uniq: &g.uniq, sink: w.sink, lenHint: 2}
		oms := methodsOfClass(okind, "mutator")
		m := oms[r.Intn(len(oms))]
		switch m.Name {
		case "Free", "Marshal", "Transfer", "SetMutex", "Mutex", "Init", "SetExpression":
			// (Free / Init would drop the neighbour's handle; Transfer is below;
			// a new expression could close a cycle)
		default:
			burst = append(burst, Op{Obj: o, M: m.Name, Args: synthArgs(r, m, octx, r.Intn(3)), Tag: "burst"})
		}
	}
	// neighbours called with the fenced object as argument
	if kind == 'S' && r.Bool(0.4) {
		for _, s := range w.stacks {
			if s != target {
				burst = append(burst, Op{Obj: s, M: "Transfer", Args: []Val{vRef(target, r.Intn(nDress))}, Tag: "burst"})
				break
			}
		}
	}
	if r.Bool(0.3) {
		// several tasks under the scheduler
		g.tr.Seq = false
		nt := r.Range(2, 3)
		g.tr.Tasks = make([][]Op, nt)
		var b2 []Op
		for _, op := range burst {
			if op.M != "Init" { // Init replaces the instance: not while other tasks use the handle
				b2 = append(b2, op)
			}
		}
		burst = b2
		for i, op := range burst {
			g.tr.Tasks[i%nt] = append(g.tr.Tasks[i%nt], op)
		}
		g.tr.Knobs = Knobs{Stay: 0.5, PreemptWant: 0.7, CfgYield: []int{0, 4, 1}[r.Intn(3)], PolicyYield: true}
		g.tr.Config = "conc"
		return g.tr
	}
	g.tr.Config = "seq"
	for _, op := range burst {
		g.emit(op, false)
	}
	g.emit(Op{Obj: target, M: "SetReadOnly", Args: []Val{vBool(false)}, Tag: "unfence"}, false)
	if kind == 'S' {
		g.emit(Op{Obj: target, M: "SetID", Args: []Val{ctx.uv("after")}, Tag: "after"}, false)
		g.emit(Op{Obj: target, M: "Reverse", Tag: "after"}, false)
	} else {
		g.emit(Op{Obj: target, M: "SetKeyword", Args: []Val{ctx.uv("after")}, Tag: "after"}, false)
	}
	return g.tr
}

type c09state struct {
	reach     map[int]string // objects nested (at any depth) in the fenced one: their dumps at the fence
	target    int
	fence     string // dump of the fenced object when the fence went up
	up        bool
	attempted map[string]bool
	freed     bool
}

func (c09) Begin(x *Exec) { x.state = &c09state{target: -1, attempted: map[string]bool{}} }

// stripMoved removes the "handle=moved{...} " prefix (Condition.Init
// replaced the instance behind the handle; the old instance is what the
// rest of the dump shows).
func stripMoved(d string) string {
	if strings.HasPrefix(d, "handle=moved{") {
		depth := 0
		for i := len("handle=moved"); i < len(d); i++ {
			switch d[i] {
			case '{':
				depth++
			case '}':
				depth--
				if depth == 0 {
					return strings.TrimPrefix(d[i+1:], " ")
				}
			}
		}
	}
	return d
}

var objNameRe = regexp.MustCompile(`\b([SC])(\d+)\b`)

// reachable: the world objects nested at any depth below object i, found by
// walking the slot / expression part of the raw dumps.
func reachable(x *Exec, i int) map[int]string {
	out := map[int]string{}
	var walk func(j int)
	walk = func(j int) {
		_, slots := splitDump(x.w.dump(j))
		for _, m := range objNameRe.FindAllStringSubmatch(slots, -1) {
			var k int
			fmt.Sscanf(m[2], "%d", &k)
			if k == i || k >= len(x.w.objs) {
				continue
			}
			if _, seen := out[k]; !seen {
				out[k] = normStamp(x.w.dump(k))
				walk(k)
			}
		}
	}
	walk(i)
	return out
}

func (p c09) check(x *Exec, op Op, out Outcome, who string) {
	st := x.state.(*c09state)
	if !st.up {
		return
	}
	if op.Obj != st.target {
		// a call on a neighbour may legitimately change anything that is not
		// itself read-only - the neighbour, what it is given, and whatever it
		// reaches (a parent's Defrag or Reveal descends into writable stacks
		// that also hang below the fenced object): re-baseline everything
		// nested below the fenced object, judge only the fenced instance itself
		for k := range st.reach {
			st.reach[k] = normStamp(x.w.dump(k))
		}
	}
	if op.Obj == st.target && op.M != "Init" {
		// a call on the read-only instance must not reach through it either:
		// what is nested below it is part of what it shows (String, Unmarshal)
		for k, was := range st.reach {
			if now := normStamp(x.w.dump(k)); now != was {
				x.fail("nested-changed-under-fence:"+op.M, fmt.Sprintf("%s%s on read-only %s changed %s, which is nested in it (%s):\n at fence: %s\n now:      %s", who, op, x.w.objs[st.target].name, x.w.objs[k].name, diffFields(was, now), was, now))
				return
			}
		}
	}
	now := normStamp(x.w.dump(st.target))
	if op.M == "Init" && op.Obj == st.target {
		// documented exception: the instance is replaced; the old one must be untouched
		now = stripMoved(now)
	}
	if now == st.fence {
		return
	}
	only := diffFields(st.fence, now)
	switch {
	case op.M == "SetErr" && op.Obj == st.target && !strings.Contains(only, "+") && only != "slots" && only != "several":
		// documented exception: the error field may be set regardless
		st.fence = now
		return
	}
	x.fail("changed-under-fence:"+op.M, fmt.Sprintf("%s%s changed read-only %s (%s):\n at fence: %s\n now:      %s", who, op, x.w.objs[st.target].name, only, st.fence, now))
}

func (p c09) AfterOp(x *Exec, task, idx int, op Op, out Outcome) {
	st := x.state.(*c09state)
	if out.Panic != "" {
		x.fail("panic:"+op.M, fmt.Sprintf("%s panicked: %s", op, out.Panic))
		return
	}
	switch op.Tag {
	case "fence":
		st.target = op.Obj
		st.fence = normStamp(x.w.dump(op.Obj))
		st.reach = reachable(x, op.Obj)
		st.up = true
		if !strings.Contains(st.fence, " ") {
			panic("harness: empty fence dump")
		}
		return
	case "burst":
		cls := classOf(op.M)
		if cls != "query" {
			st.attempted[op.M] = true
			x.fault("mutator-under-fence:" + op.M)
		}
		if len(st.attempted) >= 2 {
			x.stats.NonTrivial = true
		}
		x.stats.ShapeSig += fmt.Sprintf("%s/%d,", op.M, len(op.Args))
		if op.M == "Free" && op.Obj == st.target && st.up {
			if len(out.Ret) != 1 || out.Ret[0] == "nil" {
				x.fail("free-under-fence:Free", fmt.Sprintf("Free on read-only %s returned %s instead of an error", x.w.objs[st.target].name, out))
				return
			}
		}
		who := ""
		if task >= 0 && !x.tr.Seq {
			who = fmt.Sprintf("task %d: ", task)
		}
		p.check(x, op, out, who)
		if op.M == "Init" && op.Obj == st.target {
			st.up = false // the handle now names a fresh, writable instance
		}
	case "unfence":
		now := normStamp(x.w.dump(st.target))
		if st.up {
			// exactly the state at the fence, minus the flag
			only := diffFields(st.fence, now)
			if strings.Contains(only, "+") || only == "slots" || only == "several" || only == "nothing" {
				x.fail("unfence-state:"+only, fmt.Sprintf("after SetReadOnly(false) the state differs from the fence in %s:\n at fence: %s\n now:      %s", only, st.fence, now))
				return
			}
			o := x.w.objs[st.target]
			ro := false
			if o.T == 'S' {
				ro = o.keep.IsReadOnly()
			} else {
				ro = o.keepC.IsReadOnly()
			}
			if ro {
				x.fail("unfence-state:still-read-only", "SetReadOnly(false) left the instance read-only")
				return
			}
		}
		st.up = false
		st.fence = now
	case "after":
		// mutability restored
		now := normStamp(x.w.dump(st.target))
		o := x.w.objs[st.target]
		switch op.M {
		case "SetID":
			if o.keep.ID() != op.Args[0].S {
				x.fail("not-restored:SetID", fmt.Sprintf("after the fence was lowered %s had no effect (ID()=%q)", op, o.keep.ID()))
			}
		case "SetKeyword":
			if h := *o.C; !h.IsZero() && h.Keyword() != op.Args[0].S {
				x.fail("not-restored:SetKeyword", fmt.Sprintf("after the fence was lowered %s had no effect (Keyword()=%q)", op, h.Keyword()))
			}
		case "Reverse":
			if o.keep.Len() >= 2 {
				a, _ := o.keep.Index(0)
				b, _ := o.keep.Index(o.keep.Len() - 1)
				if a != nil && b != nil && x.w.describe(a) != x.w.describe(b) && now == st.fence {
					x.fail("not-restored:Reverse", "after the fence was lowered Reverse had no effect")
				}
			}
		}
		st.fence = now
	}
}

func (p c09) AfterStep(x *Exec, t *task, ev event, pre []string, held map[uintptr]bool) {
	if ev.kind == "op.end" {
		return // AfterOp does it
	}
	st := x.state.(*c09state)
	if !st.up {
		return
	}
	op := Op{M: x.opName(t), Obj: -1}
	if t.opIdx < len(t.prog) {
		op = t.prog[t.opIdx]
	}
	if op.M == "Init" || op.M == "SetErr" {
		return // judged at the end of the call
	}
	p.check(x, op, Outcome{}, fmt.Sprintf("task %d (mid-call, at %s): ", t.id, ev.kind))
}

func (c09) End(x *Exec) {
	st := x.state.(*c09state)
	o := x.w.objs[st.target]
	x.stats.ShapeSig = string(o.T) + x.tr.Config + ":" + x.stats.ShapeSig
}

var stampRe = regexp.MustCompile(`=time:-?\d+`)

// normStamp hides the lock-duration stamp: ephemeral bookkeeping that is
// set while any locked call (SetReadOnly itself included) is in flight.
func normStamp(d string) string { return stampRe.ReplaceAllString(d, "=ptr:nil") }
