package main

import (
	"fmt"
	"sort"
	"strconv"
	"strings"
	"time"

	"github.com/anishathalye/porcupine"
)

// C10 — with mutual exclusion enabled, concurrent mutators act atomically.

type c10 struct{ baseProp }

func init() { register(c10{}) }

func (c10) ID() string { return "C10" }
func (c10) Technique() string {
	return "deterministic simulation: seeded cooperative scheduler over lock hooks, write-discipline invariant per step, porcupine linearizability vs list model, vector-clock race classes"
}
func (c10) Runs(tier string) int {
	if tier == "thorough" {
		return 3750000
	}
	return 250000
}
func (c10) Rule() string {
	return "one mutex-enabled stack, 2-3 tasks x 1-3 mutators, seeded schedule at lock.want/held/released (+cfg.read knob); non-trivial = at least one context switch between a task's op start and its lock acquisition or inside another task's op; distinct = hash(programs, lock order, schedule)"
}
func (c10) WantsStepDumps() bool { return true }

type c10state struct {
	m       *MWorld
	lockObj map[uintptr]int
	uniq    int
	stale   int
}

var kinds = []string{"AND", "OR", "NOT", "LIST", "BASIC"}

func (c10) Gen(r *Rng, tier string, run int) *Trace {
	tr := &Trace{Prop: "C10"}
	spec := ObjSpec{T: "S", Kind: kinds[r.Intn(len(kinds))]}
	if r.Bool(0.5) {
		spec.Cap = r.Range(1, 4)
	}
	tr.Objs = []ObjSpec{spec}
	tr.Setup = append(tr.Setup, Op{Obj: 0, M: "SetMutex"})
	if r.Bool(0.4) {
		tr.Setup = append(tr.Setup, Op{Obj: 0, M: "SetFIFO", Args: []Val{vBool(true)}})
	}
	uniq := 0
	nv := func() Val { uniq++; return vStr("v" + strconv.Itoa(uniq)) }
	n0 := r.Range(0, 3)
	if n0 > 0 {
		op := Op{Obj: 0, M: "Push"}
		for i := 0; i < n0; i++ {
			op.Args = append(op.Args, nv())
		}
		tr.Setup = append(tr.Setup, op)
	}
	nt := r.Range(2, 3)
	// swarm: a random subset of the mutator alphabet per run
	all := []string{"Push", "Pop", "Insert", "Remove", "Replace", "Swap", "Reverse", "Reset", "SetMutex"}
	var alpha []string
	for _, m := range all {
		if r.Bool(0.6) {
			alpha = append(alpha, m)
		}
	}
	if len(alpha) == 0 {
		alpha = all
	}
	maxLen := n0 + 2
	pos := func() Val { return vInt(r.Range(-1, maxLen+1)) }
	for t := 0; t < nt; t++ {
		var prog []Op
		for k := r.Range(1, 3); k > 0; k-- {
			m := alpha[r.Intn(len(alpha))]
			op := Op{Obj: 0, M: m}
			switch m {
			case "Push":
				op.Args = append(op.Args, nv())
				if r.Bool(0.3) {
					op.Args = append(op.Args, nv())
				}
			case "Insert", "Replace":
				op.Args = []Val{nv(), pos()}
			case "Remove":
				op.Args = []Val{pos()}
			case "Swap":
				op.Args = []Val{pos(), pos()}
			}
			prog = append(prog, op)
		}
		tr.Tasks = append(tr.Tasks, prog)
	}
	tr.Knobs.Stay = []float64{0.1, 0.5, 0.8}[r.Intn(3)]
	tr.Knobs.PreemptWant = []float64{0.3, 0.7, 0.95}[r.Intn(3)]
	tr.Knobs.CfgYield = []int{0, 0, 0, 5, 2, 1}[r.Intn(6)]
	return tr
}

func elemFn(w *World) ElemFn {
	return func(v Val) MElem {
		x := w.val(v)
		e := MElem{D: w.describe(x), Nil: x == nil}
		if v.K == "ref" && int(v.I) < len(w.objs) {
			o := w.objs[v.I]
			if o.T == 'S' && !o.keep.IsZero() {
				e.IsStack = true
			}
			if o.T == 'C' && !o.keepC.IsZero() {
				e.IsCond = true
			}
		}
		return e
	}
}

func (c10) Begin(x *Exec) {
	st := &c10state{m: &MWorld{Clos: x.tr.Closures, Ncons: map[string]int{}}, lockObj: map[uintptr]int{}}
	for _, s := range x.tr.Objs {
		st.m.S = append(st.m.S, newMStack(s))
		st.m.C = append(st.m.C, nil)
	}
	x.state = st
	x.track = true
	x.w.rawStamp = true
}

func (c10) AfterOp(x *Exec, task, idx int, op Op, out Outcome) {
	st := x.state.(*c10state)
	if out.Panic != "" {
		x.fail("panic:"+op.M, fmt.Sprintf("%s panicked: %s", op, out.Panic))
		return
	}
	for _, r := range out.Ret {
		if strings.Contains(r, "nodeConfig") {
			x.fail("cfg-returned:"+op.M, fmt.Sprintf("%s returned the configuration record: %v", op, out.Ret))
			return
		}
	}
	if task < 0 {
		// setup runs sequentially: it must match the model exactly
		alts := st.m.applyStack(op, x.w.objs[op.Obj].name, elemFn(x.w))
		if len(alts) == 0 {
			panic("harness: C10 setup op not modelled: " + op.String())
		}
		st.m = alts[0].W
	}
}

func (c10) AfterStep(x *Exec, t *task, ev event, pre []string, heldAtStart map[uintptr]bool) {
	st := x.state.(*c10state)
	if ev.lock != 0 && ev.obj >= 0 {
		st.lockObj[ev.lock] = ev.obj
	}
	method := x.opName(t)
	if ev.kind == "op.end" {
		method = t.prog[ev.op].M
	}
	post := x.w.snapshot()
	for i := range post {
		if !strings.HasPrefix(post[i], "stack ") {
			x.fail("cfg-lost:"+method, fmt.Sprintf("after a step of task %d in %s the stack is no longer initialised: %s", t.id, method, post[i]))
			return
		}
		o := x.w.objs[i]
		if c := o.keep.Cap(); c > 0 && o.keep.Len() > c {
			x.fail("capacity-exceeded:"+method, fmt.Sprintf("Len %d > capacity %d after a step of task %d in %s", o.keep.Len(), c, t.id, method))
			return
		}
		if pre[i] == post[i] {
			continue
		}
		if dumpField(pre[i], "mtx") == "ptr:nil" {
			continue // mutual exclusion not enabled: the property says nothing
		}
		covered := false
		for l := range heldAtStart {
			if st.lockObj[l] == i {
				covered = true
			}
		}
		x.accesses = append(x.accesses, access{task: t.id, obj: i, write: true, covered: covered, phase: t.phase, method: method,
			vc: append([]int(nil), t.vc...), step: x.step})
		if !covered {
			only := diffFields(pre[i], post[i])
			if only == "ldr" {
				x.fail("bookkeeping-outside-lock:"+stepSpan(t, ev), fmt.Sprintf("lock stamp of %s written by task %d in %s while not holding the lock (step ending at %s)", o.name, t.id, method, ev.kind))
			} else {
				x.fail("write-outside-lock:"+method, fmt.Sprintf("%s changed by task %d in %s while not holding its lock (step ending at %s): changed %s\n before: %s\n after:  %s", o.name, t.id, method, ev.kind, only, pre[i], post[i]))
			}
			return
		}
	}
	if ev.kind == "lock.held" {
		x.probe("lock-acquired")
	}
	if x.lastTask != nil && len(x.sched) >= 2 && x.sched[len(x.sched)-2] != t.id {
		// this step followed a context switch: where was the task we switched to?
		switch t.phase {
		case "crit":
			x.fault("resumed-inside-critical-section")
		case "pre":
			x.fault("resumed-between-check-and-lock")
		default:
			x.fault("resumed-after-unlock")
		}
	}
	if ev.kind == "cfg.read" {
		x.fault("yield-at-configuration-read")
	}
}

func stepSpan(t *task, ev event) string {
	switch ev.kind {
	case "lock.want":
		return "before-Lock"
	case "op.end", "cfg.read":
		if t.phase == "post" {
			return "after-Unlock"
		}
	}
	return ev.kind
}

// splitDump tokenises the configuration part of a dump, respecting quoted
// strings and nested brackets, and returns the fields and the slot part.
func splitDump(d string) (fields []string, slots string) {
	depth := 0
	inq := false
	start := 0
	for i := 0; i < len(d); i++ {
		c := d[i]
		switch {
		case inq:
			if c == '\\' {
				i++
			} else if c == '"' {
				inq = false
			}
		case c == '"':
			inq = true
		case c == '{' || c == '[' || c == '(':
			depth++
		case c == '}' || c == ']' || c == ')':
			depth--
		case c == ' ' && depth == 0:
			if i > start {
				fields = append(fields, d[start:i])
			}
			start = i + 1
		case c == '|' && depth == 0 && i > 0 && d[i-1] == ' ':
			return fields, d[i:]
		}
	}
	if start < len(d) {
		fields = append(fields, d[start:])
	}
	return fields, ""
}

// diffFields names what differs between two dumps: a configuration field
// name, "slots", several joined by "+", or "several" if the shapes differ.
func diffFields(a, b string) string {
	af, as := splitDump(a)
	bf, bs := splitDump(b)
	var changed []string
	if as != bs {
		changed = append(changed, "slots")
	}
	if len(af) != len(bf) {
		return "several"
	}
	for i := range af {
		if af[i] != bf[i] {
			name := af[i]
			if k := strings.Index(name, "="); k > 0 {
				name = name[:k]
			}
			changed = append(changed, name)
		}
	}
	if len(changed) == 0 {
		return "nothing"
	}
	return strings.Join(changed, "+")
}

type obsOut struct{ content string }

func (c10) End(x *Exec) {
	st := x.state.(*c10state)
	w := x.w
	o := w.objs[0]
	// final observer
	var parts []string
	n := o.keep.Len()
	for i := 0; i < n; i++ {
		v, _ := o.keep.Index(i)
		parts = append(parts, w.describe(v))
	}
	final := strings.Join(parts, " ")

	// non-triviality and shape
	sw := 0
	for i := 1; i < len(x.sched); i++ {
		if x.sched[i] != x.sched[i-1] {
			sw++
		}
	}
	x.stats.NonTrivial = sw >= len(x.tasks)
	var sb strings.Builder
	for _, p := range x.tr.Tasks {
		for _, op := range p {
			sb.WriteString(op.M + ",")
		}
		sb.WriteString("|")
	}
	sb.WriteString(strings.Join(x.stats.LockOrder, ""))
	sb.WriteString(fmt.Sprint(x.sched))
	x.stats.ShapeSig = sb.String()

	// 7. linearizability
	el := elemFn(w)
	self := o.name
	model := porcupine.Model{
		Init: func() interface{} { return st.m.S[0] },
		Step: func(state, in, out interface{}) (bool, interface{}) {
			ms := state.(*MStack)
			switch v := in.(type) {
			case Op:
				mw := &MWorld{S: []*MStack{ms}, C: []*MCond{nil}, Ncons: map[string]int{}}
				alts := mw.applyStack(v, self, el)
				for _, a := range alts {
					if retsMatch(a.Rets, out.([]string)) {
						return true, a.W.S[0]
					}
				}
				return false, ms
			case string: // observer
				var p []string
				for _, e := range ms.Elems {
					p = append(p, e.D)
				}
				return strings.Join(p, " ") == out.(obsOut).content, ms
			}
			return false, ms
		},
		Equal: func(a, b interface{}) bool { return a.(*MStack).key() == b.(*MStack).key() },
		DescribeOperation: func(in, out interface{}) string {
			return fmt.Sprint(in) + " -> " + fmt.Sprint(out)
		},
	}
	var ops []porcupine.Operation
	for _, h := range x.history {
		ops = append(ops, porcupine.Operation{ClientId: h.Task, Input: h.Op, Call: h.Call, Output: h.Out.Ret, Return: h.Return})
	}
	ops = append(ops, porcupine.Operation{ClientId: len(x.tasks), Input: "observe", Call: x.seq + 1, Output: obsOut{final}, Return: x.seq + 2})
	res := porcupine.CheckOperationsTimeout(model, ops, 10*time.Second)
	switch res {
	case porcupine.Ok:
		x.stats.Linear = "ok"
	case porcupine.Unknown:
		x.stats.Linear = "unknown"
	case porcupine.Illegal:
		x.stats.Linear = "illegal"
		var hs []string
		ms := map[string]bool{}
		for _, h := range x.history {
			hs = append(hs, fmt.Sprintf("t%d[%d,%d] %s -> %s", h.Task, h.Call, h.Return, h.Op, h.Out))
			ms[h.Op.M] = true
		}
		var names []string
		for m := range ms {
			names = append(names, m)
		}
		sort.Strings(names)
		x.fail("nonlinearizable:"+strings.Join(names, "+"), "no sequential order of the calls explains their results and the final content ["+final+"]; initial "+st.m.S[0].key()+"; history: "+strings.Join(hs, "; "))
		if x.failed() {
			return
		}
	}

	// 8. logical data races (vector clocks)
	classes := map[string]string{}
	for i := range x.accesses {
		a := &x.accesses[i]
		if !a.write {
			continue
		}
		for j := range x.accesses {
			b := &x.accesses[j]
			if b.task == a.task || b.obj != a.obj || (b.write && j < i) {
				continue
			}
			// ordered?
			if a.vc[a.task] <= b.vc[a.task] || b.vc[b.task] <= a.vc[b.task] {
				continue
			}
			var cls string
			if b.write {
				cls = "race:W[" + lockState(b.covered) + "]xW[" + lockState(a.covered) + "]"
			} else {
				cls = "race:R[" + b.phase + "," + lockState(b.covered) + "]xW[" + lockState(a.covered) + "]"
			}
			if _, ok := classes[cls]; !ok {
				classes[cls] = fmt.Sprintf("task %d %s (%s) in %s at step %d is unordered with the write by task %d in %s at step %d", b.task, rw(b.write), b.phase, b.method, b.step, a.task, a.method, a.step)
			}
		}
	}
	var cs []string
	for c := range classes {
		cs = append(cs, c)
	}
	sort.Strings(cs)
	for _, c := range cs {
		x.fail(c, classes[c])
	}
}

func lockState(c bool) string {
	if c {
		return "locked"
	}
	return "unlocked"
}

func rw(w bool) string {
	if w {
		return "write"
	}
	return "read"
}
