package main

import (
	"fmt"
	"reflect"
	"strings"
)

// C11 — queries never modify anything and may run concurrently.

type c11 struct{ baseProp }

func init() { register(c11{}) }

func (c11) ID() string { return "C11" }
func (c11) Technique() string {
	return "deterministic simulation: 2-4 scheduled tasks issue queries from the reflective alphabet with yields inside the queries (configuration reads, harness closures); full raw state dump compared with the baseline after every scheduler step, every concurrent answer compared with its isolated answer, returned containers mutated, lock acquisitions by queries flagged"
}
func (c11) Runs(tier string) int {
	if tier == "thorough" {
		return 1500000
	}
	return 100000
}
func (c11) Rule() string {
	return "world built by a seeded history (nested stacks/conditions, options, policies, mutex and read-only on random nodes); every exported method classified by reflection as declared query (statement list, Is*/Can* by pattern, Interface getters) / declared mutator / unknown; 2-4 tasks x 1-4 queries with argument synthesis, each first answered in isolation; non-trivial = at least 2 tasks were interleaved inside a query (a context switch at a configuration read or closure); distinct = hash(query multiset, schedule)"
}
func (c11) WantsStepDumps() bool { return false }

func (c11) Gen(r *Rng, tier string, run int) *Trace {
	g := newHgen(r, "C11")
	w := buildRich(g)
	all := append(append([]int{}, w.stacks...), w.conds...)
	for _, o := range all {
		if r.Bool(0.25) {
			g.emit(Op{Obj: o, M: "SetReadOnly", Args: []Val{vBool(true)}}, true)
		}
	}
	g.tr.Seq = false
	nt := r.Range(2, 4)
	g.tr.Tasks = make([][]Op, nt)
	seen := map[string]bool{}
	for t := 0; t < nt; t++ {
		for k := r.Range(1, 4); k > 0; k-- {
			obj := all[r.Intn(len(all))]
			kind := byte('S')
			if g.m.S[obj] == nil {
				kind = 'C'
			}
			var ms []methodInfo
			for _, m := range methodsInfo(kind) {
				// only DECLARED queries are required to be write- and lock-free.
				// Classifying an undeclared method by what one call does is
				// unsound: a guarded mutator that happens to be a no-op for the
				// chosen arguments would be taken for a query (C09's fence and
				// C17's burst cover undeclared methods soundly).
				if classOf(m.Name) == "query" {
					ms = append(ms, m)
				}
			}
			m := ms[r.Intn(len(ms))]
			ctx := &synthCtx{self: obj, stacks: w.stacks, conds: w.conds, uniq: &g.uniq, sink: w.sink, lenHint: 3}
			op := Op{Obj: obj, M: m.Name, Args: synthArgs(r, m, ctx, r.Intn(3)), Tag: "q"}
			if m.Name == "IsEqual" {
				o2 := all[r.Intn(len(all))]
				op.Args = []Val{vRef(o2, r.Intn(nDress))}
			}
			g.tr.Tasks[t] = append(g.tr.Tasks[t], op)
			if key := op.String(); !seen[key] {
				seen[key] = true
				iso := op
				iso.Tag = "iso"
				g.tr.Setup = append(g.tr.Setup, iso)
			}
		}
	}
	g.tr.Knobs = Knobs{Stay: []float64{0.2, 0.6}[r.Intn(2)], PreemptWant: 0.5, CfgYield: []int{1, 2, 5, 11}[r.Intn(4)], PolicyYield: true}
	return g.tr
}

type c11state struct {
	base    []string
	iso     map[string]string
	isoRaw  map[string][]any
	inQuery int
}

func (c11) Begin(x *Exec) { x.state = &c11state{iso: map[string]string{}, isoRaw: map[string][]any{}} }

func maskAddr(op Op, out Outcome) string {
	if op.M == "Addr" && len(out.Ret) == 1 && strings.HasPrefix(out.Ret[0], "\"0x") {
		return "(<addr>)"
	}
	return out.String()
}

func (c11) AfterOp(x *Exec, task, idx int, op Op, out Outcome) {
	st := x.state.(*c11state)
	if out.Panic != "" {
		x.fail("panic:"+op.M, fmt.Sprintf("%s panicked: %s", op, out.Panic))
		return
	}
	if task < 0 {
		if op.Tag != "iso" {
			st.base = x.w.snapshot()
			return
		}
		now := x.w.snapshot()
		for i := range now {
			if now[i] != st.base[i] {
				if classOf(op.M) == "unknown" {
					// a method nobody declared: it writes, so it is a mutator,
					// not this property's business
					x.probe("unknown-method-is-mutator:" + op.M)
					x.halt = true
					return
				}
				x.fail("dump-changed:"+op.M, fmt.Sprintf("query %s, alone, changed %s (%s):\n before: %s\n after:  %s", op, x.w.objs[i].name, diffFields(st.base[i], now[i]), st.base[i], now[i]))
				return
			}
		}
		st.iso[op.String()] = maskAddr(op, out)
		st.isoRaw[op.String()] = out.Raw
		// containers handed back are the caller's: altering them must not
		// reach the structure (the Auxiliary map is the documented exception)
		touched := false
		for _, raw := range out.Raw {
			// Index/Front/Back/Traverse/Expression hand back the stored element
			// itself by design: that is the user's own value, not a container
			if op.M == "Index" || op.M == "Front" || op.M == "Back" || op.M == "Traverse" || op.M == "Expression" {
				break
			}
			if scribbleAny(raw) {
				touched = true
			}
		}
		if touched {
			after := x.w.snapshot()
			for i := range after {
				if after[i] != st.base[i] {
					x.fail("container-aliased:"+op.M, fmt.Sprintf("altering the container returned by %s changed %s (%s):\n before: %s\n after:  %s", op, x.w.objs[i].name, diffFields(st.base[i], after[i]), st.base[i], after[i]))
					return
				}
			}
			x.probe("returned-container-scribbled")
		}
		return
	}
	if want, ok := st.iso[op.String()]; ok {
		if got := maskAddr(op, out); got != want {
			x.fail("result-differs:"+op.M, fmt.Sprintf("task %d: %s answered %s concurrently but %s in isolation on the same state", task, op, got, want))
			return
		}
	}
}

func (c11) AfterStep(x *Exec, t *task, ev event, pre []string, held map[uintptr]bool) {
	st := x.state.(*c11state)
	m := x.opName(t)
	if ev.kind == "op.end" {
		m = t.prog[ev.op].M
	}
	if ev.kind == "lock.want" || ev.kind == "lock.held" {
		x.fail("query-locks:"+m, fmt.Sprintf("task %d: query %s takes the lock of %s (queries are documented as lock-free)", t.id, m, x.objName(ev.obj)))
		return
	}
	now := x.w.snapshot()
	for i := range now {
		if now[i] != st.base[i] {
			x.fail("dump-changed:"+m, fmt.Sprintf("task %d in query %s (step ending at %s) changed %s (%s):\n before: %s\n after:  %s", t.id, m, ev.kind, x.w.objs[i].name, diffFields(st.base[i], now[i]), st.base[i], now[i]))
			return
		}
	}
	if ev.kind != "op.end" {
		st.inQuery++
	}
}

// scribble overwrites every element of a returned container, recursively.
func scribble(v any) {
	if s, ok := v.([]any); ok {
		for i := range s {
			scribble(s[i])
			s[i] = "SCRIBBLED"
		}
	}
}

func (c11) End(x *Exec) {
	st := x.state.(*c11state)
	w := x.w
	// containers handed back are fresh: scribble over everything Unmarshal
	// returned, then look again
	for i, o := range w.objs {
		var first []any
		var err error
		if o.T == 'S' && !o.keep.IsZero() {
			first, err = o.keep.Unmarshal()
		} else if o.T == 'C' && !o.keepC.IsZero() {
			first, err = o.keepC.Unmarshal()
		} else {
			continue
		}
		if err != nil {
			continue
		}
		d1 := w.describe(first)
		scribble(first)
		if len(first) > 0 {
			first = append(first[:0], "SCRIBBLED")
		}
		now := w.snapshot()
		for j := range now {
			if now[j] != st.base[j] {
				x.fail("container-aliased:Unmarshal", fmt.Sprintf("altering the slice returned by %s.Unmarshal() changed %s:\n before: %s\n after:  %s", o.name, w.objs[j].name, st.base[j], now[j]))
				return
			}
		}
		var second []any
		if o.T == 'S' {
			second, _ = o.keep.Unmarshal()
		} else {
			second, _ = o.keepC.Unmarshal()
		}
		if d2 := w.describe(second); d2 != d1 {
			x.fail("container-aliased:Unmarshal", fmt.Sprintf("after altering the slice returned by %s.Unmarshal(), a second call returns %s instead of %s", o.name, d2, d1))
			return
		}
		_ = i
	}
	// reach
	sw := 0
	for i := 1; i < len(x.sched); i++ {
		if x.sched[i] != x.sched[i-1] {
			sw++
		}
	}
	x.stats.NonTrivial = sw >= 2 && st.inQuery > 0
	if x.stats.NonTrivial {
		x.fault("preempted-inside-query")
	}
	var sb strings.Builder
	for _, p := range x.tr.Tasks {
		for _, op := range p {
			sb.WriteString(fmt.Sprintf("%d.%s,", op.Obj, op.M))
		}
		sb.WriteString("|")
	}
	x.stats.ShapeSig = sb.String() + fmt.Sprint(x.sched)
}

// scribbleAny overwrites the elements of any slice value a query returned
// ([]any, []string, [][]string, ...), recursively; it reports whether there
// was anything to overwrite.
func scribbleAny(v any) bool {
	if v == nil {
		return false
	}
	rv := reflect.ValueOf(v)
	if rv.Kind() != reflect.Slice || rv.Len() == 0 {
		return false
	}
	for i := 0; i < rv.Len(); i++ {
		e := rv.Index(i)
		if e.Kind() == reflect.Interface && !e.IsNil() {
			scribbleAny(e.Interface())
		} else if e.Kind() == reflect.Slice {
			scribbleAny(e.Interface())
		}
		if e.CanSet() {
			switch e.Kind() {
			case reflect.String:
				e.SetString("SCRIBBLED")
			case reflect.Interface:
				e.Set(reflect.ValueOf("SCRIBBLED"))
			default:
				e.Set(reflect.Zero(e.Type()))
			}
		}
	}
	return true
}
