package main

import "fmt"

// C13 — no-nesting keeps Stacks out; CanNest and IsNesting tell the truth.

type c13 struct{ baseProp }

func init() { register(c13{}) }

func (c13) ID() string { return "C13" }
func (c13) Technique() string {
	return "deterministic simulation, sequential configuration: no-nesting flips injected as events into seeded push / set-expression histories, stored content and CanNest/IsNesting checked against the reference model after every op"
}
func (c13) Runs(tier string) int {
	if tier == "thorough" {
		return 15000000
	}
	return 600000
}
func (c13) Rule() string {
	return "history of 1-20 ops: Push batches mixing stacks (native, alias, alias with String, pointer to alias, pointer to native), Conditions and primitives, no-nesting set/clear/toggle on a Stack and on a Condition, SetExpression of stacks and primitives, occasional Pop/Remove; non-trivial = a stack value was offered while no-nesting was set AND another while it was clear; distinct = hash(op sequence with option state and lengths)"
}

func (c13) Gen(r *Rng, tier string, run int) *Trace {
	g := newHgen(r, "C13")
	cap0 := 0
	if r.Bool(0.25) {
		cap0 = r.Range(2, 6) // a skipped stack must not use up a slot
	}
	s0 := g.addStack(g.kind(), cap0)
	s1 := g.addStack(g.kind(), 0)
	s2 := g.addStack(g.kind(), 0)
	c3 := g.addCond("kw", 1, vStr("ex"))
	c4 := g.addCond("kw2", 2, vStr("ex2"))
	c4ref := c4
	if r.Bool(0.3) {
		g.emit(Op{Obj: s0, M: "SetNoNesting", Args: []Val{vBool(true)}}, true)
	}
	if r.Bool(0.3) {
		g.emit(Op{Obj: s0, M: "SetMutex"}, true)
	}
	if r.Bool(0.3) {
		g.emit(Op{Obj: c4, M: "SetNoNesting", Args: []Val{vBool(true)}}, true)
	}
	// the constructor leaves no error on a valid condition, so expressions are accepted
	val := func() Val {
		switch r.Intn(10) {
		case 0, 1, 2:
			return vRef(s1, r.Intn(nDress))
		case 3:
			return vRef(s2, r.Intn(nDress))
		case 4:
			if r.Bool(0.5) {
				return vRef(c4ref, r.PickInt(dNative, dAlias, dPtrNative))
			}
			return vRef(c3, r.Intn(nDress))
		case 5:
			if r.Bool(0.3) {
				return vNil()
			}
		case 6:
			if r.Bool(0.5) {
				// things that look like stacks but are none: typed-nil pointers, zero values
				return vAwk([]int{1, 2, 13, 26, 19, 23}[r.Intn(6)]) // (zero-valued Stack{} / alias: whether that "is a Stack" is unspecified, never generated)
			}
		}
		return g.plain()
	}
	tri := func(op *Op) {
		switch r.Intn(3) {
		case 0:
			op.Args = []Val{vBool(true)}
		case 1:
			op.Args = []Val{vBool(false)}
		}
	}
	n := r.Range(1, 20)
	for i := 0; i < n; i++ {
		switch r.Intn(10) {
		case 0, 1, 2, 3:
			op := Op{Obj: s0, M: "Push"}
			for k := r.Range(1, 4); k > 0; k-- {
				op.Args = append(op.Args, val())
			}
			g.emit(op, false)
		case 4, 5:
			op := Op{Obj: s0, M: r.PickStr("SetNoNesting", "SetNoNesting", "NoNesting")}
			tri(&op)
			g.emit(op, false)
		case 6:
			op := Op{Obj: c4, M: r.PickStr("SetNoNesting", "SetNoNesting", "NoNesting")}
			tri(&op)
			g.emit(op, false)
		case 7, 8:
			v := val()
			if v.K == "ref" && (int(v.I) == c3 || int(v.I) == c4) {
				v = g.plain()
			}
			g.emit(Op{Obj: c4, M: "SetExpression", Args: []Val{v}}, false)
		case 9:
			if !g.m.S[s0].Opt["nnest"] && r.Bool(0.5) {
				v := val()
				if v.K == "nil" {
					v = g.plain()
				}
				if g.lenOf(s0) > 0 && r.Bool(0.5) {
					g.emit(Op{Obj: s0, M: "Replace", Args: []Val{v, vInt(r.Intn(g.lenOf(s0)))}}, false)
				} else {
					g.emit(Op{Obj: s0, M: "Insert", Args: []Val{v, vInt(r.Range(0, g.lenOf(s0)))}}, false)
				}
			} else if g.lenOf(s0) > 0 && r.Bool(0.5) {
				g.emit(Op{Obj: s0, M: "Remove", Args: []Val{vInt(r.Intn(g.lenOf(s0)))}}, false)
			} else {
				g.emit(Op{Obj: s0, M: "Pop"}, false)
			}
		}
	}
	return g.tr
}

var c13keys = histKeys{content: true, nest: true}

func (c13) Begin(x *Exec) { x.state = newHistState(x) }

func (c13) AfterOp(x *Exec, task, idx int, op Op, out Outcome) {
	st := x.state.(*histState)
	if out.Panic != "" {
		x.fail("panic:"+op.M, fmt.Sprintf("%s panicked: %s", op, out.Panic))
		return
	}
	before := st.m
	if why := st.stepModel(x, op, out, c13keys); why != "" {
		x.fail("model-mismatch:"+mismatchSite(op, why), fmt.Sprintf("after %s: %s", op, why))
		return
	}
	// reach
	nn := false
	if m := before.S[op.Obj]; m != nil {
		nn = m.Opt["nnest"]
	} else if m := before.C[op.Obj]; m != nil {
		nn = m.Opt["nnest"]
	}
	if op.M == "Push" || op.M == "SetExpression" {
		el := elemFn(x.w)
		for _, a := range op.Args {
			if el(a).IsStack {
				if nn {
					x.fault("stack-offered-under-no-nesting")
				} else {
					x.probe("stack-offered-while-nesting-allowed")
				}
			}
		}
	}
	if x.stats.Faults["stack-offered-under-no-nesting"] > 0 && x.stats.Probes["stack-offered-while-nesting-allowed"] > 0 {
		x.stats.NonTrivial = true
	}
	ln := 0
	if m := st.m.S[op.Obj]; m != nil {
		ln = len(m.Elems)
	}
	x.stats.ShapeSig += fmt.Sprintf("%d.%s%v%d,", op.Obj, op.M, nn, ln)
}
