package main

import (
	"fmt"
	"strings"
)

// C14 — user-supplied policies decide, exactly as documented.

type c14 struct{ baseProp }

func init() { register(c14{}) }

func (c14) ID() string { return "C14" }
func (c14) Technique() string {
	return "deterministic simulation with fault injection into foreign code: harness-owned closures fail on a seeded plan (k-th consultation, value class, always), their consultation log is the recorded history; push batches, install/remove sequences and queries checked against the reference model and a closure-free twin; on mutex-enabled stacks the policy is a yield point inside the critical section while a second task observes"
}
func (c14) Runs(tier string) int {
	if tier == "thorough" {
		return 7500000
	}
	return 500000
}
func (c14) Rule() string {
	return "sequential (75%): 3-25 ops on a Stack (every kind, capacity none or 1-6) and a Condition: install/remove of push, validity, presentation, equality, marshal, unmarshal, less, evaluator closures whose verdicts come from the fault plan; Push batches; Valid/String/IsEqual/Marshal/Unmarshal/Less/Evaluate; every accepted element mirrored into a closure-free twin that supplies the built-in answers. concurrent (25%): a Push batch with a rejecting policy on a mutex-enabled stack while another task queries and pops; the rejected value must never be visible at any scheduler step. non-trivial = a consulted rejection mid-batch with room left, or a closure result observed and later the default restored; distinct = hash(op sequence, verdict pattern / schedule)"
}
func (c14) WantsStepDumps() bool { return false }

var c14plan = map[string]ClosureSpec{
	"push1":  {Always: true},
	"valid1": {Always: true}, "equal1": {Always: true}, "unmarshal1": {Always: true}, "marshal1": {Always: true}, "eval1": {Always: true},
}

func (c14) Gen(r *Rng, tier string, run int) *Trace {
	if r.Bool(0.25) {
		return c14conc(r)
	}
	g := newHgen(r, "C14")
	g.tr.Config = "seq"
	kind := g.kind()
	cap := 0
	if r.Bool(0.4) {
		cap = r.Range(1, 6)
	}
	s0 := g.addStack(kind, cap)
	twin := g.addStack(kind, cap)
	other := g.addStack(kind, cap)
	ex3 := vStr("ex")
	if r.Bool(0.3) {
		ex3 = vNil() // an incomplete Condition: only an installed validity closure can call it valid
	}
	c3 := g.addCond("kw", r.Range(1, 6), ex3)
	c4 := g.addCond("kw", r.Range(1, 6), vStr("ex"))
	g.emit(Op{Obj: other, M: "Push", Args: []Val{vStr("o1")}}, true)
	// fault plan: push0 rejects the k-th consultation and/or a value class
	plan := map[string]ClosureSpec{}
	for k, v := range c14plan {
		plan[k] = v
	}
	p0 := ClosureSpec{}
	if r.Bool(0.7) {
		p0.RejectAt = []int{r.Intn(6)}
		if r.Bool(0.3) {
			p0.RejectAt = append(p0.RejectAt, r.Range(4, 10))
		}
	}
	bad := "\"bad\""
	if r.Bool(0.5) {
		p0.RejectVals = []string{bad}
	}
	plan["push0"] = p0
	g.tr.Closures = plan
	g.m.Clos = plan

	pushLike := func(obj int, args []Val) {
		before := len(g.m.S[obj].Elems)
		g.emit(Op{Obj: obj, M: "Push", Args: args}, false)
		args = g.last.Args // a bulk Push offers more than was asked for
		n := len(g.m.S[obj].Elems) - before
		if n > 0 {
			g.emit(Op{Obj: twin, M: "Push", Args: args[:n], Tag: "twin"}, false)
		}
	}
	stackPol := []string{"SetPushPolicy", "SetPushPolicy", "SetValidityPolicy", "SetPresentationPolicy", "SetEqualityPolicy", "SetUnmarshaler", "SetMarshaler"}
	condPol := []string{"SetValidityPolicy", "SetPresentationPolicy", "SetEqualityPolicy", "SetUnmarshaler", "SetEvaluator"}
	fnArg := func() []Val {
		switch r.Intn(4) {
		case 0:
			return []Val{vNil()}
		case 1:
			return []Val{vFn(1)}
		}
		return []Val{vFn(r.PickInt(0, 0, 2))}
	}
	n := r.Range(3, 25)
	for i := 0; i < n; i++ {
		switch r.Intn(14) {
		case 0, 1:
			m := stackPol[r.Intn(len(stackPol))]
			a := fnArg()
			if a[0].K == "nil" && r.Bool(0.5) && m != "SetPushPolicy" && m != "SetValidityPolicy" && m != "SetPresentationPolicy" {
				a = nil // variadic setters: no argument also unsets
			}
			g.emit(Op{Obj: s0, M: m, Args: a}, false)
		case 2:
			m := condPol[r.Intn(len(condPol))]
			a := fnArg()
			if a[0].K == "nil" && r.Bool(0.5) && (m == "SetEqualityPolicy" || m == "SetUnmarshaler") {
				a = nil
			}
			g.emit(Op{Obj: c3, M: m, Args: a}, false)
		case 3, 4, 5, 6:
			var args []Val
			for k := r.Range(1, 4); k > 0; k-- {
				if r.Bool(0.2) {
					args = append(args, vStr("bad"))
				} else if r.Bool(0.1) {
					args = append(args, vRef(other, r.Intn(nDress)))
				} else {
					args = append(args, g.uv())
				}
			}
			pushLike(s0, args)
		case 7:
			switch {
			case r.Bool(0.25):
				// documented: with a push policy installed the policy decides, no-nesting does not
				g.emit(Op{Obj: s0, M: "SetNoNesting", Args: []Val{vBool(r.Bool(0.6))}}, false)
			case r.Bool(0.2):
				g.emit(Op{Obj: s0, M: "SetReadOnly", Args: []Val{vBool(!g.m.S[s0].Opt["ronly"])}}, false)
			case g.lenOf(s0) > 0 && !g.m.S[s0].Opt["ronly"]:
				g.emit(Op{Obj: s0, M: "Pop"}, false)
				g.emit(Op{Obj: twin, M: "Pop", Tag: "twin"}, false)
			}
		case 8, 9, 10, 11:
			q := []Op{
				{Obj: s0, M: "Valid"}, {Obj: s0, M: "String"}, {Obj: s0, M: "Unmarshal"},
				{Obj: s0, M: "IsEqual", Args: []Val{vRef(other, r.Intn(nDress))}},
				{Obj: s0, M: "IsEqual", Args: []Val{vRef(s0, r.Intn(nDress))}},
			}[r.Intn(5)]
			q.Tag = "q"
			g.emit(q, false)
		case 12:
			q := []Op{
				{Obj: c3, M: "Valid"}, {Obj: c3, M: "String"}, {Obj: c3, M: "Unmarshal"},
				{Obj: c3, M: "IsEqual", Args: []Val{vRef(c4, r.PickInt(dNative, dAlias, dPtrAlias))}},
				{Obj: c3, M: "Evaluate", Args: []Val{g.uv()}},
			}[r.Intn(5)]
			q.Tag = "q"
			g.emit(q, false)
		case 13:
			// Marshal into the initialised receiver: through the marshaler if one is installed
			if _, has := g.m.S[s0].Pol["marshal"]; has {
				if r.Bool(0.5) {
					g.emit(Op{Obj: s0, M: "Marshal", Args: []Val{vStr("LIST"), g.uv()}, Tag: "q"}, false)
				} else {
					g.emit(Op{Obj: s0, M: "Marshal", Args: []Val{{K: "anys", L: []Val{vStr("AND"), g.uv(), g.uv()}}}, Tag: "q"}, false)
				}
			}
		}
	}
	return g.tr
}

func c14conc(r *Rng) *Trace {
	tr := &Trace{Prop: "C14", Config: "conc"}
	cap := 0
	if r.Bool(0.4) {
		cap = r.Range(2, 6)
	}
	tr.Objs = []ObjSpec{{T: "S", Kind: kinds[r.Intn(len(kinds))], Cap: cap}}
	tr.Closures = map[string]ClosureSpec{"push0": {RejectVals: []string{"\"bad\""}}}
	tr.Setup = []Op{{Obj: 0, M: "SetMutex"}, {Obj: 0, M: "SetPushPolicy", Args: []Val{vFn(0)}}}
	if r.Bool(0.5) {
		tr.Setup = append(tr.Setup, Op{Obj: 0, M: "Push", Args: []Val{vStr("i1"), vStr("i2")}})
	}
	uniq := 0
	nv := func() Val { uniq++; return vStr("v" + itoa(uniq)) }
	var batch []Val
	for k := r.Range(1, 4); k > 0; k-- {
		batch = append(batch, nv())
	}
	at := r.Intn(len(batch) + 1)
	batch = append(batch[:at:at], append([]Val{vStr("bad")}, batch[at:]...)...)
	tr.Tasks = append(tr.Tasks, []Op{{Obj: 0, M: "Push", Args: batch}})
	for t := r.Range(1, 2); t > 0; t-- {
		var prog []Op
		for k := r.Range(1, 3); k > 0; k-- {
			switch r.Intn(5) {
			case 0:
				prog = append(prog, Op{Obj: 0, M: "Len", Tag: "q"})
			case 1:
				prog = append(prog, Op{Obj: 0, M: "Index", Args: []Val{vInt(r.Intn(5))}, Tag: "q"})
			case 2:
				prog = append(prog, Op{Obj: 0, M: "Pop"})
			case 3:
				prog = append(prog, Op{Obj: 0, M: "Push", Args: []Val{nv(), vStr("bad")}})
			case 4:
				prog = append(prog, Op{Obj: 0, M: "Back", Tag: "q"})
			}
		}
		tr.Tasks = append(tr.Tasks, prog)
	}
	tr.Knobs = Knobs{Stay: []float64{0.2, 0.6}[r.Intn(2)], PreemptWant: 0.7, CfgYield: []int{0, 0, 3}[r.Intn(3)], PolicyYield: true}
	return tr
}

var c14keys = histKeys{content: true, cap: true, noCond: true}

type c14state struct {
	*histState
	nlog                  int
	midBatch              bool
	closureSeen, restored bool
}

func (c14) Begin(x *Exec) { x.state = &c14state{histState: newHistState(x)} }

func verdictOf(x *Exec, key string) string {
	if x.tr.Closures[key].Always {
		return "err#" + key + "-reject"
	}
	return "nil"
}

func (p c14) AfterOp(x *Exec, task, idx int, op Op, out Outcome) {
	st := x.state.(*c14state)
	w := x.w
	if out.Panic != "" {
		x.fail("panic:"+op.M, fmt.Sprintf("%s panicked: %s", op, out.Panic))
		return
	}
	if x.tr.Config == "conc" {
		if task < 0 {
			if why := st.stepModel(x, op, out, c14keys); why != "" {
				x.fail("model-mismatch:"+mismatchSite(op, why), fmt.Sprintf("after %s: %s", op, why))
			}
			st.nlog = len(w.consult)
			return
		}
		for _, r := range out.Ret {
			if rejectsBad(x, st) && r == "\"bad\"" {
				x.fail("rejected-value-visible:"+op.M, fmt.Sprintf("task %d: %s returned the value the push policy rejected", task, op))
				return
			}
		}
		return
	}
	before := st.m
	logFrom := st.nlog
	st.nlog = len(w.consult)
	newLog := w.consult[logFrom:]
	if op.Tag == "q" {
		p.query(x, st, op, out, newLog)
		return
	}
	// mutators and installs go through the model
	alts := st.m.applyStack
	_ = alts
	var expect []string
	if w.objs[op.Obj].T == 'S' {
		as := st.m.applyStack(op, w.objs[op.Obj].name, elemFn(w))
		if len(as) > 0 {
			expect = as[0].Consults
		}
	}
	if why := st.stepModel(x, op, out, c14keys); why != "" {
		x.fail("model-mismatch:"+mismatchSite(op, why), fmt.Sprintf("after %s: %s (model before: %s)", op, why, keyOf(before, op.Obj)))
		return
	}
	if op.M == "Push" && op.Tag != "twin" && op.Obj == 0 {
		// the consultation log is the recorded history
		var got []string
		for _, c := range newLog {
			if c.Kind == "push" {
				got = append(got, fmt.Sprintf("push%d %s -> %s", c.Slot, c.Args, c.Ret))
			}
		}
		if strings.Join(got, "; ") != strings.Join(expect, "; ") {
			x.fail("consultation-log:Push", fmt.Sprintf("%s consulted the push policy as [%s], expected [%s] (once per offered value, in order, only while room remains, nothing after the first rejection); model before: %s", op, strings.Join(got, "; "), strings.Join(expect, "; "), keyOf(before, 0)))
			return
		}
		rejected := false
		for _, e := range expect {
			if strings.Contains(e, "-> err") {
				rejected = true
			}
		}
		if rejected {
			x.fault("policy-rejection-consulted")
			if g := w.describe(w.objs[0].keep.Err()); g != st.m.S[0].Err {
				x.fail("err-not-recorded:Push", fmt.Sprintf("after the rejecting batch %s Err()=%s, expected the policy's error %s", op, g, st.m.S[0].Err))
				return
			}
			if m := st.m.S[0]; !m.full() {
				x.probe("policy-rejected-with-room-left")
				st.midBatch = true
			}
		} else if len(expect) < len(op.Args) && len(expect) > 0 {
			x.probe("policy-not-consulted-for-values-dropped-by-capacity")
		}
	}
	if op.M == "SetPresentationPolicy" && w.objs[op.Obj].T == 'S' && before.S[op.Obj].Kind == "BASIC" && !before.S[op.Obj].Opt["ronly"] {
		if w.objs[op.Obj].keep.Err() == nil {
			x.fail("basic-presentation-policy:SetPresentationPolicy", "a BASIC stack accepted a presentation policy without recording an error")
			return
		}
		x.probe("basic-refused-presentation-policy")
	}
	x.stats.NonTrivial = st.midBatch || (st.closureSeen && st.restored)
	x.stats.ShapeSig += fmt.Sprintf("%d.%s/%d,", op.Obj, op.M, len(op.Args))
}

func keyOf(m *MWorld, i int) string {
	if m.S[i] != nil {
		return m.S[i].key() + fmt.Sprint(" pol", m.S[i].Pol)
	}
	if m.C[i] != nil {
		return fmt.Sprint("cond pol", m.C[i].Pol)
	}
	return ""
}

// query: results of Valid/String/IsEqual/Marshal/Unmarshal/Less/Evaluate
// must be the installed closure's, or the built-in behaviour (the twin's).
func (c14) query(x *Exec, st *c14state, op Op, out Outcome, log []Consult) {
	w := x.w
	got := out.String()
	fail := func(what, want string) {
		x.fail("closure-result:"+op.M+":"+what, fmt.Sprintf("%s returned %s, expected %s (%s); installed: %s", op, got, want, what, keyOf(st.m, op.Obj)))
	}
	x.stats.ShapeSig += fmt.Sprintf("%d.%s?,", op.Obj, op.M)
	if w.objs[op.Obj].T == 'S' {
		m := st.m.S[op.Obj]
		twin := w.objs[1].keep
		self := w.objs[0].keep
		vslot, hasV := m.Pol["valid"]
		vrej := hasV && x.tr.Closures["valid"+itoa(vslot)].Always
		// the twin supplies built-in answers only while it mirrors the content
		twinOK := len(st.m.S) > 1 && st.m.S[1] != nil && len(st.m.S[1].Elems) == len(m.Elems)
		if twinOK {
			for i := range m.Elems {
				if m.Elems[i].D != st.m.S[1].Elems[i].D {
					twinOK = false
				}
			}
		}
		if !twinOK {
			switch op.M {
			case "String":
				if _, ok := m.Pol["pres"]; !ok && m.Kind != "BASIC" && !vrej {
					return
				}
			case "IsEqual", "Unmarshal", "Less":
				if _, ok := m.Pol[map[string]string{"IsEqual": "equal", "Unmarshal": "unmarshal", "Less": "less"}[op.M]]; !ok {
					return
				}
			}
		}
		switch op.M {
		case "Valid":
			if (out.Ret[0] != "nil") != vrej {
				fail("validity closure decides", map[bool]string{true: "an error", false: "nil"}[vrej])
			}
			if hasV {
				st.closureSeen = true
			}
		case "String":
			want := ""
			src := "twin (built-in rendering)"
			switch {
			case m.Kind == "BASIC" || vrej:
				want = ""
				src = "BASIC or rejected by the validity closure"
			default:
				if s, ok := m.Pol["pres"]; ok {
					want = "PRES" + itoa(s)
					src = "presentation closure"
					st.closureSeen = true
				} else {
					want = twin.String()
					if st.closureSeen {
						st.restored = true
					}
				}
			}
			if out.Ret[0] != w.describe(want) {
				fail(src, w.describe(want))
			}
		case "IsEqual":
			if s, ok := m.Pol["equal"]; ok {
				st.closureSeen = true
				if want := verdictOf(x, "equal"+itoa(s)); out.Ret[0] != want {
					fail("equality closure", want)
				}
			} else {
				want := twin.IsEqual(w.val(op.Args[0]))
				if (out.Ret[0] == "nil") != (want == nil) {
					fail("built-in comparison (twin)", fmt.Sprint(want))
				}
				if st.closureSeen {
					st.restored = true
				}
			}
		case "Unmarshal":
			if s, ok := m.Pol["unmarshal"]; ok {
				st.closureSeen = true
				want := "([\"UM" + itoa(s) + "\"], " + verdictOf(x, "unmarshal"+itoa(s)) + ")"
				if got != want {
					fail("unmarshal closure", want)
				}
			} else {
				ts, terr := twin.Unmarshal()
				want := "(" + w.describe(ts) + ", " + w.describe(terr) + ")"
				if got != want {
					fail("built-in unmarshal (twin)", want)
				}
				if st.closureSeen {
					st.restored = true
				}
			}
		case "Marshal":
			if s, ok := m.Pol["marshal"]; ok {
				st.closureSeen = true
				if want := verdictOf(x, "marshal"+itoa(s)); out.Ret[0] != want {
					fail("marshal closure", want)
				}
				if d := cmpStack(x, 0, m, c14keys); d != "" {
					x.fail("closure-result:Marshal:content", "Marshal with a marshaler installed changed the content: "+d)
					return
				}
				// the closure receives exactly the arguments Marshal was given
				var given []any
				for _, a := range op.Args {
					given = append(given, w.val(a))
				}
				for _, c := range log {
					if c.Kind == "marshal" && c.Args != w.describe(given) {
						x.fail("closure-result:Marshal:arguments", fmt.Sprintf("%s handed the marshaler %s instead of %s", op, c.Args, w.describe(given)))
						return
					}
				}
			}
		case "Less":
			if s, ok := m.Pol["less"]; ok {
				i, j := op.Args[0].I, op.Args[1].I
				want := []bool{i < j, i > j, false}[s]
				if out.Ret[0] != boolS(want) {
					fail("less closure", boolS(want))
				}
			} else if want := twin.Less(int(op.Args[0].I), int(op.Args[1].I)); out.Ret[0] != boolS(want) {
				fail("built-in less (twin)", boolS(want))
			}
		}
		_ = self
		return
	}
	// condition
	m := st.m.C[op.Obj]
	vslot, hasV := m.Pol["valid"]
	switch op.M {
	case "Valid":
		want := "nil"
		if hasV {
			st.closureSeen = true
			want = verdictOf(x, "valid"+itoa(vslot))
		} else if !m.valid() {
			want = wild
		}
		if want != wild && out.Ret[0] != want {
			fail("validity closure: that very error", want)
		}
	case "String":
		want := ""
		src := "validity gates rendering"
		ok := m.valid()
		if hasV {
			ok = verdictOf(x, "valid"+itoa(vslot)) == "nil"
		}
		if ok {
			if s, has := m.Pol["pres"]; has {
				want, src = "PRES"+itoa(s), "presentation closure"
				st.closureSeen = true
			} else if !m.ExSet {
				return // declared valid by the closure but nothing to render: unspecified
			} else if t, known := m.render(w); known {
				want, src = t, "built-in rendering"
				if st.closureSeen {
					st.restored = true
				}
			} else {
				return
			}
		}
		if out.Ret[0] != w.describe(want) {
			fail(src, w.describe(want))
		}
	case "IsEqual":
		if s, ok := m.Pol["equal"]; ok {
			st.closureSeen = true
			if want := verdictOf(x, "equal"+itoa(s)); out.Ret[0] != want {
				fail("equality closure", want)
			}
		} else if o := st.m.C[4]; out.Ret[0] != "nil" && o != nil && m.Op == o.Op && m.Kw == o.Kw && m.ExSet && o.ExSet && m.Ex.D == o.Ex.D {
			fail("built-in comparison of equal conditions", "nil")
		}
	case "Unmarshal":
		if s, ok := m.Pol["unmarshal"]; ok {
			st.closureSeen = true
			want := "([\"UM" + itoa(s) + "\"], " + verdictOf(x, "unmarshal"+itoa(s)) + ")"
			if got != want {
				fail("unmarshal closure", want)
			}
		} else if want := "([\"CONDITION\" " + w.describe(m.Kw) + " " + m.Op + " " + exD(m) + "], nil)"; got != want {
			fail("built-in unmarshal", want)
		}
	case "Evaluate":
		if s, ok := m.Pol["eval"]; ok {
			st.closureSeen = true
			want := "(\"EV" + itoa(s) + "\", " + verdictOf(x, "eval"+itoa(s)) + ")"
			if got != want {
				fail("evaluator closure", want)
			}
		} else if out.Ret[0] != "nil" || out.Ret[1] == "nil" {
			fail("no evaluator installed", "(nil, an error)")
		}
	}
}

func (c14) AfterStep(x *Exec, t *task, ev event, pre []string, held map[uintptr]bool) {
	// concurrent configuration: nothing the policy rejected is ever visible
	st := x.state.(*c14state)
	if !rejectsBad(x, st) {
		return // no policy that rejects the value: nothing is "rejected"
	}
	d := x.w.dump(0)
	_, slots := splitDump(d)
	if strings.Contains(slots, "\"bad\"") {
		x.fail("rejected-value-visible:"+x.opName(t), fmt.Sprintf("after a step of task %d in %s (ending at %s) the value the push policy rejects is stored: %s", t.id, x.opName(t), ev.kind, slots))
		return
	}
	if strings.HasPrefix(ev.kind, "policy.") {
		x.fault("preempted-inside-policy")
	}
}

func (c14) End(x *Exec) {
	if x.tr.Config != "conc" {
		return
	}
	// a rejecting batch leaves the policy's error
	w := x.w
	sw := 0
	for i := 1; i < len(x.sched); i++ {
		if x.sched[i] != x.sched[i-1] {
			sw++
		}
	}
	rej := 0
	for _, c := range w.consult {
		if c.Kind == "push" && c.Ret != "nil" {
			rej++
		}
	}
	x.stats.NonTrivial = sw >= 2 && rej > 0
	if rej > 0 {
		x.fault("policy-rejection-consulted")
	}
	var sb strings.Builder
	for _, p := range x.tr.Tasks {
		for _, op := range p {
			sb.WriteString(fmt.Sprintf("%s/%d,", op.M, len(op.Args)))
		}
		sb.WriteString("|")
	}
	x.stats.ShapeSig = "conc:" + sb.String() + fmt.Sprint(x.sched)
}

// rejectsBad: is a push policy installed whose fault plan rejects "bad"?
func rejectsBad(x *Exec, st *c14state) bool {
	slot, installed := st.m.S[0].Pol["push"]
	if !installed {
		return false
	}
	spec := x.tr.Closures["push"+itoa(slot)]
	if spec.Always {
		return true
	}
	for _, v := range spec.RejectVals {
		if v == "\"bad\"" {
			return true
		}
	}
	return false
}

func exD(m *MCond) string {
	if !m.ExSet {
		return "nil"
	}
	return m.Ex.D
}
