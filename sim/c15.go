package main

import (
	"fmt"
	"strings"
)

// C15 — Transfer copies everything or reports failure, and never touches the source.

type c15 struct{ baseProp }

func init() { register(c15{}) }

func (c15) ID() string { return "C15" }
func (c15) Technique() string {
	return "deterministic simulation, sequential configuration: capacity exhaustion, read-only fence, freed/zero and foreign destinations injected into seeded two-stack histories; return value, destination content and source dump checked against the reference model after every Transfer"
}
func (c15) Runs(tier string) int {
	if tier == "thorough" {
		return 6000000
	}
	return 400000
}
func (c15) Rule() string {
	return "history of 1-20 ops on a source (LIFO/FIFO, nil elements) and destinations (capacity none or 1-8, read-only, no-nesting, zero value, foreign values; native / alias / pointer dress), with Transfer at random instants; non-trivial = at least one Transfer succeeded AND one was refused for capacity / read-only / dead / foreign reasons; distinct = hash(op sequence with lengths and outcomes)"
}

func (c15) Gen(r *Rng, tier string, run int) *Trace {
	g := newHgen(r, "C15")
	src := g.addStack(g.kind(), 0)
	cap := 0
	if r.Bool(0.6) {
		cap = r.Range(1, 8)
	}
	dst := g.addStack(g.kind(), cap)
	zs := g.addZeroStack()
	ro := g.addStack(g.kind(), 0)
	other := g.addStack(g.kind(), 0)
	g.emit(Op{Obj: ro, M: "SetReadOnly", Args: []Val{vBool(true)}}, true)
	if r.Bool(0.3) {
		g.emit(Op{Obj: src, M: "SetFIFO", Args: []Val{vBool(true)}}, true)
	}
	if r.Bool(0.3) {
		// the lock paths run in the sequential configuration too (a lock left held or asked for twice is detected)
		g.emit(Op{Obj: src, M: "SetMutex"}, true)
	}
	if r.Bool(0.3) {
		g.emit(Op{Obj: dst, M: "SetMutex"}, true)
	}
	if r.Bool(0.15) {
		g.emit(Op{Obj: dst, M: "SetNoNesting", Args: []Val{vBool(true)}}, true)
	}
	if r.Bool(0.25) {
		g.emit(Op{Obj: dst, M: "SetFIFO", Args: []Val{vBool(true)}}, true)
	}
	holder := g.addCond("holds", 1, vRef(other, dNative)) // a Condition whose expression is a stack: not a Stack
	val := func() Val {
		switch r.Intn(14) {
		case 0:
			return vNil()
		case 1:
			return vRef(other, r.Intn(nDress))
		case 2:
			// the destination itself as an element of the source (contents are
			// only ever observed through Len/Index, so the cycle is harmless)
			return vRef(dst, r.PickInt(dNative, dAlias))
		}
		return g.plain()
	}
	n := r.Range(1, 20)
	for i := 0; i < n; i++ {
		switch r.Intn(12) {
		case 0, 1, 2:
			op := Op{Obj: src, M: "Push"}
			for k := r.Range(1, 3); k > 0; k-- {
				op.Args = append(op.Args, val())
			}
			g.emit(op, false)
		case 3:
			g.emit(Op{Obj: src, M: "Pop"}, false)
		case 4, 5:
			op := Op{Obj: dst, M: "Push"}
			for k := r.Range(1, 3); k > 0; k-- {
				op.Args = append(op.Args, g.plain())
			}
			g.emit(op, false)
		case 6:
			g.emit(Op{Obj: dst, M: "Pop"}, false)
		case 7:
			if r.Bool(0.3) {
				// a read-only source may still be transferred FROM, and stays read-only
				g.emit(Op{Obj: src, M: "SetReadOnly", Args: []Val{vBool(r.Bool(0.6))}}, false)
			} else {
				g.emit(Op{Obj: dst, M: "SetReadOnly", Args: []Val{vBool(r.Bool(0.4))}}, false)
			}
		default:
			var d Val
			switch r.Intn(10) {
			case 0:
				d = vRef(zs, r.PickInt(dNative, dPtrNative))
			case 1:
				d = vRef(ro, r.Intn(nDress))
			case 2:
				d = []Val{vStr("foreign"), vInt(7), vNil(), vAwk(r.Intn(nAwk)), vRef(holder, r.PickInt(dNative, dAlias, dPtrNative)), vRef(holder, dNative)}[r.Intn(6)]
			default:
				d = vRef(dst, r.Intn(nDress))
			}
			g.emit(Op{Obj: src, M: "Transfer", Args: []Val{d}}, false)
		}
	}
	return g.tr
}

var c15keys = histKeys{content: true, cap: true}

type c15state struct {
	*histState
	dumps []string
}

func (c15) Begin(x *Exec) { x.state = &c15state{histState: newHistState(x)} }

func (c15) AfterSetup(x *Exec) { x.state.(*c15state).dumps = x.w.snapshot() }

func (c15) AfterOp(x *Exec, task, idx int, op Op, out Outcome) {
	st := x.state.(*c15state)
	if out.Panic != "" {
		x.fail("panic:"+op.M, fmt.Sprintf("%s panicked: %s", op, out.Panic))
		return
	}
	before := st.m
	if why := st.stepModel(x, op, out, c15keys); why != "" {
		x.fail("model-mismatch:"+mismatchSite(op, why), fmt.Sprintf("after %s: %s (source before: %s)", op, why, before.S[op.Obj].key()))
		return
	}
	now := x.w.snapshot()
	if op.M == "Transfer" && task >= 0 {
		if a := op.Args[0]; a.K == "ref" && int(a.I) < len(now) && x.w.objs[a.I].T == 'S' {
			// the destination may gain elements, nothing else about it changes
			bf, _ := splitDump(st.dumps[a.I])
			af, _ := splitDump(now[a.I])
			if strings.Join(bf, " ") != strings.Join(af, " ") {
				x.fail("destination-config-changed:Transfer", fmt.Sprintf("%s changed the configuration of its destination (%s):\n before: %s\n after:  %s", op, diffFields(st.dumps[a.I], now[a.I]), st.dumps[a.I], now[a.I]))
				return
			}
		}
		if st.dumps[op.Obj] != now[op.Obj] {
			x.fail("source-changed:Transfer", fmt.Sprintf("%s changed its source:\n before: %s\n after:  %s", op, st.dumps[op.Obj], now[op.Obj]))
			return
		}
		ok := len(out.Ret) == 1 && out.Ret[0] == "true"
		if ok {
			x.probe("transfer-succeeded")
		} else {
			why := "foreign-destination"
			a := op.Args[0]
			if a.K == "ref" && before.S[a.I] != nil {
				d := before.S[a.I]
				switch {
				case !d.Live:
					why = "dead-destination"
				case d.Opt["ronly"]:
					why = "read-only-destination"
				case d.Cap > 0 && d.Cap-len(d.Elems) < len(before.S[op.Obj].Elems):
					why = "capacity-exhausted"
				default:
					why = "no-nesting-destination"
				}
			}
			x.fault("transfer-refused:" + why)
		}
		if x.stats.Probes["transfer-succeeded"] > 0 && len(x.stats.Faults) > 0 {
			x.stats.NonTrivial = true
		}
	}
	st.dumps = now
	x.stats.ShapeSig += fmt.Sprintf("%d.%s%d%v,", op.Obj, op.M, len(st.m.S[op.Obj].Elems), out.Ret)
}
