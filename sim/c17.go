package main

import (
	"fmt"
	"reflect"
	"strings"

	stackage "github.com/JesseCoretta/go-stackage"
)

// C17 — uninitialised and freed instances are inert, not dangerous.

type c17 struct{ baseProp }

func init() { register(c17{}) }

func (c17) ID() string { return "C17" }
func (c17) Technique() string {
	return "deterministic simulation, sequential configuration: the Free / zero-value 'crash' followed by a burst over the full reflective method alphabet on the dead handle; Reset as a lifecycle event inside histories; panic-freedom, continued deadness, zero results and survival of other handles checked after every call"
}
func (c17) Runs(tier string) int {
	if tier == "thorough" {
		return 4500000
	}
	return 300000
}
func (c17) Rule() string {
	return "receiver states {zero Stack, Stack built by a seeded history then Free'd, zero Condition, Condition Free'd, Init()-only Condition, nil Auxiliary}; burst of 2-8 calls drawn from EVERY exported method (reflection) x 3 argument variants, plus ConvertStack/ConvertCondition on dead values; Free on live instances (read-only or not) and Reset on stacks holding nil elements inside the history; non-trivial = at least 3 distinct methods hit a dead receiver; distinct = hash(receiver state, method+variant sequence)"
}

// c17conc: Free issued by one task while another is inside a critical
// section of the same stack (parked in its push policy, lock held): Free
// releases the HANDLE; only the read-only flag may make it refuse.
func c17conc(r *Rng) *Trace {
	tr := &Trace{Prop: "C17", Config: "conc"}
	tr.Objs = []ObjSpec{{T: "S", Kind: kinds[r.Intn(len(kinds))]}}
	tr.Setup = []Op{{Obj: 0, M: "SetMutex"}, {Obj: 0, M: "SetPushPolicy", Args: []Val{vFn(2)}}, {Obj: 0, M: "Push", Args: []Val{vStr("i1")}}}
	tr.Tasks = [][]Op{
		{{Obj: 0, M: "Push", Args: []Val{vStr("a"), vStr("b")}, Tag: "pre"}},
		{{Obj: 0, M: "Free", Tag: "free-live"}},
	}
	if r.Bool(0.5) {
		tr.Tasks[1] = append([]Op{{Obj: 0, M: "Len", Tag: "pre"}}, tr.Tasks[1]...)
	}
	tr.Knobs = Knobs{Stay: 0.3, PreemptWant: 0.7, PolicyYield: true, CfgYield: []int{0, 3}[r.Intn(2)]}
	return tr
}

func (c17) Gen(r *Rng, tier string, run int) *Trace {
	if r.Bool(0.08) {
		return c17conc(r)
	}
	g := newHgen(r, "C17")
	w := buildRich(g)
	zs := g.addZeroStack()
	g.tr.Objs = append(g.tr.Objs, ObjSpec{T: "ZC"})
	g.m.S = append(g.m.S, nil)
	g.m.C = append(g.m.C, newMCond(ObjSpec{T: "ZC"}, nil))
	zc := len(g.tr.Objs) - 1
	g.tr.Objs = append(g.tr.Objs, ObjSpec{T: "IC"})
	g.m.S = append(g.m.S, nil)
	g.m.C = append(g.m.C, newMCond(ObjSpec{T: "IC"}, nil))
	ic := len(g.tr.Objs) - 1

	// Reset as a lifecycle event on a live stack holding nil elements
	if r.Bool(0.3) {
		s := w.stacks[r.Intn(len(w.stacks))]
		g.emit(Op{Obj: s, M: "Push", Args: []Val{vNil(), g.uv(), vNil()}, Tag: "pre"}, false)
		g.emit(Op{Obj: s, M: "Reset", Tag: "reset"}, false)
	}
	// choose the receiver and kill it if it is alive
	var recv int
	kind := byte('S')
	state := r.Intn(6)
	switch state {
	case 0:
		recv = zs
	case 1:
		recv = w.stacks[r.Intn(len(w.stacks))]
		if r.Bool(0.25) {
			// read-only instances refuse to die
			g.emit(Op{Obj: recv, M: "SetReadOnly", Args: []Val{vBool(true)}, Tag: "pre"}, false)
			g.emit(Op{Obj: recv, M: "Free", Tag: "free-ro"}, false)
			g.emit(Op{Obj: recv, M: "SetReadOnly", Args: []Val{vBool(false)}, Tag: "pre"}, false)
		}
		g.emit(Op{Obj: recv, M: "Free", Tag: "free"}, false)
	case 2:
		recv, kind = zc, 'C'
	case 3:
		recv, kind = w.conds[r.Intn(len(w.conds))], 'C'
		if r.Bool(0.25) {
			g.emit(Op{Obj: recv, M: "SetReadOnly", Args: []Val{vBool(true)}, Tag: "pre"}, false)
			g.emit(Op{Obj: recv, M: "Free", Tag: "free-ro"}, false)
			g.emit(Op{Obj: recv, M: "SetReadOnly", Args: []Val{vBool(false)}, Tag: "pre"}, false)
		}
		g.emit(Op{Obj: recv, M: "Free", Tag: "free"}, false)
	case 4:
		recv, kind = ic, 'C'
	case 5:
		// nil Auxiliary and the package-level converters
		for k := r.Range(2, 5); k > 0; k-- {
			switch r.Intn(6) {
			case 0:
				g.emit(Op{Obj: -1, M: "aux.Get", Args: []Val{vStr("k")}, Tag: "dead"}, false)
			case 1:
				g.emit(Op{Obj: -1, M: "aux.Len", Tag: "dead"}, false)
			case 2:
				g.emit(Op{Obj: -1, M: "aux.Set", Args: []Val{vStr("k"), g.uv()}, Tag: "dead"}, false)
			case 3:
				g.emit(Op{Obj: -1, M: "aux.Unset", Args: []Val{vStr("k")}, Tag: "dead"}, false)
			case 4:
				g.emit(Op{Obj: -1, M: "pkg.ConvertStack", Args: []Val{[]Val{vRef(zs, r.Intn(nDress)), vAwk(r.Intn(nAwk)), vNil(), vRef(zc, 0)}[r.Intn(4)]}, Tag: "dead"}, false)
			case 5:
				g.emit(Op{Obj: -1, M: "pkg.ConvertCondition", Args: []Val{[]Val{vRef(zc, r.Intn(nDress)), vAwk(r.Intn(nAwk)), vNil(), vRef(zs, 0)}[r.Intn(4)]}, Tag: "dead"}, false)
			}
		}
		return g.tr
	}
	tag := "dead"
	if recv == ic {
		tag = "init-only"
	}
	ctx := &synthCtx{self: recv, stacks: w.stacks, conds: w.conds, uniq: &g.uniq, sink: w.sink, lenHint: 2}
	ms := methodsInfo(kind)
	nm := r.Range(1, 3)
	for k := 0; k < nm; k++ {
		m := ms[r.Intn(len(ms))]
		if (m.Name == "Marshal" || m.Name == "Init") && k != nm-1 {
			continue // these bring the instance to life: only as the last call
		}
		v0 := r.Intn(3)
		for v := 0; v < 3; v++ {
			g.emit(Op{Obj: recv, M: m.Name, Args: synthArgs(r, m, ctx, v0+v), Tag: tag}, false)
			if m.Type.NumIn() == 0 || m.Name == "Marshal" || m.Name == "Init" {
				break
			}
		}
	}
	return g.tr
}

type c17state struct {
	dumps   []string
	methods map[string]bool
}

func (c17) Begin(x *Exec)      { x.state = &c17state{methods: map[string]bool{}} }
func (c17) AfterSetup(x *Exec) { x.state.(*c17state).dumps = x.w.snapshot() }

// zeroish: is x the zero value of its type - or, for the methods the
// statement names (Valid, IsEqual), an error?
func zeroish(x any, errOK bool) bool {
	if x == nil {
		return true
	}
	if _, ok := x.(error); ok {
		return errOK
	}
	return reflect.ValueOf(x).IsZero()
}

// The statement allows "an error from Valid/IsEqual" on a dead receiver;
// every other method must return its zero result, a nil error included.
var deadErrorOK = map[string]bool{"Valid": true, "IsEqual": true}

// Results that are allowed to be a fixed non-zero sentinel on a dead
// receiver: the deadness predicates themselves and the negated-flag /
// label getters whose documentation defines such a sentinel.
var deadSentinelOK = map[string]bool{"IsZero": true, "IsEmpty": true, "IsPadded": true, "ID": true, "Kind": true, "Addr": true}

func (c17) AfterOp(x *Exec, task, idx int, op Op, out Outcome) {
	st := x.state.(*c17state)
	w := x.w
	if out.Panic != "" {
		x.fail("panic:"+op.M+":"+op.Tag, fmt.Sprintf("%s panicked: %s", op, out.Panic))
		return
	}
	if task < 0 {
		return
	}
	now := w.snapshot()
	defer func() { st.dumps = now }()
	switch op.Tag {
	case "free-live":
		o := w.objs[op.Obj]
		if len(out.Ret) != 1 || out.Ret[0] != "nil" || !o.S.IsZero() || o.S.IsInit() {
			x.fail("free-refused:Free", fmt.Sprintf("task %d: Free on a live, writable %s returned %s and left the handle zero=%v (another task was inside a critical section of the same stack; only the read-only flag may make Free refuse)", task, o.name, out, o.S.IsZero()))
			return
		}
		x.fault("freed-while-locked-elsewhere")
		x.stats.NonTrivial = true
		x.stats.ShapeSig += fmt.Sprint("conc-free", x.sched)
	case "reset":
		o := w.objs[op.Obj]
		if n := o.keep.Len(); n != 0 {
			x.fail("reset-incomplete:Reset", fmt.Sprintf("after Reset %s still holds %d elements: %s", o.name, n, now[op.Obj]))
			return
		}
		bf, _ := splitDump(st.dumps[op.Obj])
		af, _ := splitDump(now[op.Obj])
		if strings.Join(bf, " ") != strings.Join(af, " ") {
			x.fail("reset-config:Reset", fmt.Sprintf("Reset changed the configuration of %s (%s):\n before: %s\n after:  %s", o.name, diffFields(st.dumps[op.Obj], now[op.Obj]), st.dumps[op.Obj], now[op.Obj]))
			return
		}
		x.probe("reset-with-nils")
	case "free-ro":
		if len(out.Ret) != 1 || out.Ret[0] == "nil" {
			x.fail("free-read-only:Free", fmt.Sprintf("Free on read-only %s returned %s instead of an error", w.objs[op.Obj].name, out))
			return
		}
		if now[op.Obj] != st.dumps[op.Obj] {
			x.fail("free-read-only:Free", fmt.Sprintf("Free on read-only %s changed it:\n before: %s\n after:  %s", w.objs[op.Obj].name, st.dumps[op.Obj], now[op.Obj]))
			return
		}
		x.fault("free-refused-read-only")
	case "free":
		o := w.objs[op.Obj]
		dead := false
		if o.T == 'S' {
			dead = o.S.IsZero() && !o.S.IsInit()
		} else {
			dead = o.C.IsZero() && !o.C.IsInit()
		}
		if !dead {
			x.fail("free-ineffective:Free", fmt.Sprintf("after Free the handle of %s is not zero", o.name))
			return
		}
		// other handles to the same structure are unaffected
		if want := "handle=zero " + st.dumps[op.Obj]; now[op.Obj] != want {
			x.fail("free-damaged-structure:Free", fmt.Sprintf("Free changed the structure other handles still refer to:\n before: %s\n after:  %s", st.dumps[op.Obj], now[op.Obj]))
			return
		}
		x.fault("freed")
	case "dead":
		st.methods[op.M] = true
		x.fault("dead-receiver-call")
		if len(st.methods) >= 3 {
			x.stats.NonTrivial = true
		}
		x.stats.ShapeSig += fmt.Sprintf("%d.%s/%d,", op.Obj, op.M, len(op.Args))
		if op.Obj >= 0 {
			o := w.objs[op.Obj]
			alive := false
			if o.T == 'S' {
				alive = !o.S.IsZero() || o.S.IsInit()
			} else {
				alive = !o.C.IsZero() || o.C.IsInit()
			}
			if op.M == "Init" && o.T == 'C' && !o.C.IsZero() {
				// a pristine instance: nothing of an earlier life
				var pristine stackage.Condition
				pristine.Init()
				fresh := w.renderState(stackage.VerifDump(pristine), 0)
				got := w.renderState(stackage.VerifDump(*o.C), 0)
				if normStamp(got) != normStamp(fresh) {
					x.fail("init-not-pristine:Init", fmt.Sprintf("Init() on a dead Condition produced an instance that is not pristine:\n got:      %s\n pristine: %s", got, fresh))
				}
				return
			}
			if op.M == "Marshal" || op.M == "Init" {
				return // their purpose is to initialise
			}
			if alive {
				x.fail("revived:"+op.M, fmt.Sprintf("%s brought the dead instance %s to life: %s", op, o.name, now[op.Obj]))
				return
			}
		}
		if !deadSentinelOK[op.M] {
			for i, raw := range out.Raw {
				if !zeroish(raw, deadErrorOK[op.M]) {
					x.fail("nonzero-result:"+op.M, fmt.Sprintf("%s on a dead receiver returned %s (result %d is not the zero result; an error is accepted from Valid and IsEqual only)", op, out, i))
					return
				}
			}
		}
		// nothing else in the world may change
		for i := range now {
			if i != op.Obj && now[i] != st.dumps[i] && !touches(op, i) {
				x.fail("collateral-change:"+op.M, fmt.Sprintf("%s on a dead receiver changed %s", op, w.objs[i].name))
				return
			}
		}
	case "init-only":
		st.methods[op.M] = true
		if len(st.methods) >= 3 {
			x.stats.NonTrivial = true
		}
		x.stats.ShapeSig += fmt.Sprintf("i%d.%s/%d,", op.Obj, op.M, len(op.Args))
		x.fault("init-only-receiver-call")
	}
}
