package main

import (
	"fmt"
	"math/bits"
)

// C18 — options are independent switches with faithful getters.

type c18 struct{ baseProp }

func init() { register(c18{}) }

func (c18) ID() string { return "C18" }
func (c18) Technique() string {
	return "deterministic simulation, sequential configuration: option / setting flips injected as events into seeded histories; getters, raw option word (one learned bit per option, nothing else moves) and content checked against the reference model after every call"
}
func (c18) Runs(tier string) int {
	if tier == "thorough" {
		return 6000000
	}
	return 400000
}
func (c18) Rule() string {
	return "history of 1-25 calls on a Stack and a Condition: set/clear/toggle of the 8 options (4 on Conditions, deprecated aliases included), SetFIFO, ID, category, delimiter, symbol, encapsulation pairs (duplicates included), auxiliary map, log-level set/unset by name, constant and raw integer, mixed with Push/Pop; non-trivial = at least 4 distinct options/settings were changed; distinct = hash(call sequence with resulting option sets)"
}

var stackOpts = []string{"SetParen", "SetFold", "SetNoPadding", "SetLeadOnce", "SetNegativeIndices", "SetForwardIndices", "SetNoNesting", "SetReadOnly",
	"Paren", "Fold", "NoPadding", "LeadOnce", "NegativeIndices", "ForwardIndices", "NoNesting", "ReadOnly"}
var condOpts = []string{"SetParen", "SetNoPadding", "SetNoNesting", "SetReadOnly", "Paren", "NoPadding", "NoNesting"}

var lvlNames = []string{"calls", "POLICY", "State", "debug", "ERROR", "trace", "user1", "USER2", "user3", "USER4", "user5", "user6", "user7", "user8", "user9", "user10", "none", "ALL"}

func (g *hgen) lvlArg(allowAll bool) Val {
	r := g.r
	for {
		var v Val
		switch r.Intn(3) {
		case 0:
			v = vStr(lvlNames[r.Intn(len(lvlNames))])
		case 1:
			v = vLvl([]int{0, 1, 2, 4, 8, 16, 32, 64, 128, 256, 512, 1024, 2048, 4096, 8192, 16384, 32768, 65535}[r.Intn(18)])
		default:
			v = vInt([]int{0, 1, 3, 44, 96, 255, 4097, 65535, 32768}[r.Intn(9)])
		}
		if !allowAll {
			if lv, _ := lvlOf(v); lv == 65535 {
				continue
			}
		}
		return v
	}
}

func (g *hgen) encArg() Val {
	r := g.r
	chars := []string{"\"", "'", "(", ")", "[", "]", "<", ">", "`"}
	if r.Bool(0.5) {
		return vStr(chars[r.Intn(len(chars))])
	}
	if r.Bool(0.3) {
		return vStrs(chars[r.Intn(len(chars))])
	}
	return vStrs(chars[r.Intn(len(chars))], chars[r.Intn(len(chars))])
}

func (c18) Gen(r *Rng, tier string, run int) *Trace {
	g := newHgen(r, "C18")
	s0 := g.addStack(g.kind(), 0)
	c1 := g.addCond("kw", 1, vStr("ex"))
	tri := func(op *Op) {
		switch r.Intn(3) {
		case 0:
			op.Args = []Val{vBool(true)}
		case 1:
			op.Args = []Val{vBool(false)}
		}
	}
	n := r.Range(1, 25)
	for i := 0; i < n; i++ {
		// do not stay read-only for long: most of a run must make progress
		if g.m.S[s0].Opt["ronly"] && r.Bool(0.6) {
			g.emit(Op{Obj: s0, M: "SetReadOnly", Args: []Val{vBool(false)}}, false)
			continue
		}
		if g.m.C[c1].Opt["ronly"] && r.Bool(0.6) {
			g.emit(Op{Obj: c1, M: "SetReadOnly", Args: []Val{vBool(false)}}, false)
			continue
		}
		if r.Bool(0.25) {
			// condition side
			switch r.Intn(8) {
			case 0, 1, 2, 3:
				op := Op{Obj: c1, M: condOpts[r.Intn(len(condOpts))]}
				tri(&op)
				g.emit(op, false)
			case 4:
				op := Op{Obj: c1, M: r.PickStr("SetEncap", "Encap")}
				for k := r.Intn(3); k > 0; k-- {
					op.Args = append(op.Args, g.encArg())
				}
				g.emit(op, false)
			case 5:
				g.emit(Op{Obj: c1, M: r.PickStr("SetID", "SetCategory"), Args: []Val{vStr(r.PickStr("", "x", "id 2", "Ünï", " lead", "trail "))}}, false)
			case 6:
				op := Op{Obj: c1, M: "SetLogLevel"}
				for k := r.Range(1, 3); k > 0; k-- {
					op.Args = append(op.Args, g.lvlArg(true))
				}
				g.emit(op, false)
			case 7:
				op := Op{Obj: c1, M: "UnsetLogLevel"}
				for k := r.Range(1, 3); k > 0; k-- {
					op.Args = append(op.Args, g.lvlArg(false))
				}
				g.emit(op, false)
			}
			continue
		}
		switch r.Intn(16) {
		case 0, 1, 2, 3, 4, 5:
			op := Op{Obj: s0, M: stackOpts[r.Intn(len(stackOpts))]}
			tri(&op)
			g.emit(op, false)
		case 6:
			g.emit(Op{Obj: s0, M: "SetFIFO", Args: []Val{vBool(r.Bool(0.5))}}, false)
		case 7:
			g.emit(Op{Obj: s0, M: r.PickStr("SetID", "SetCategory"), Args: []Val{vStr(r.PickStr("", "x", "id 2", "Ünï", "AND", "x_random", "_addrx", "random", "_Random_", " lead", "trail ", "\ttab\t", " "))}}, false)
		case 8:
			d := []Val{vStr(","), vStr("|"), vStr(""), {K: "rune", I: ';'}, {K: "rune", I: 0}, vNil(), vStr(", "), {K: "rune", I: 9}, {K: "rune", I: 31}, {K: "rune", I: 0x263a}, vStr("\t")}[r.Intn(11)]
			g.emit(Op{Obj: s0, M: "SetDelimiter", Args: []Val{d}}, false)
		case 9:
			op := Op{Obj: s0, M: r.PickStr("SetSymbol", "Symbol")}
			for k := r.Intn(3); k > 0; k-- {
				op.Args = append(op.Args, []Val{vStr("&"), vStr("||"), {K: "rune", I: '!'}, vStr(""), vStr("xor"), vStr("Nand")}[r.Intn(6)])
			}
			g.emit(op, false)
		case 10:
			op := Op{Obj: s0, M: r.PickStr("SetEncap", "Encap")}
			for k := r.Intn(3); k > 0; k-- {
				op.Args = append(op.Args, g.encArg())
			}
			g.emit(op, false)
		case 11:
			op := Op{Obj: s0, M: "SetAuxiliary"}
			switch r.Intn(3) {
			case 0:
				op.Args = []Val{vAux(r.Intn(2))}
			case 1:
				op.Args = []Val{vNil()}
			}
			g.emit(op, false)
		case 12:
			op := Op{Obj: s0, M: "SetLogLevel"}
			for k := r.Range(1, 3); k > 0; k-- {
				op.Args = append(op.Args, g.lvlArg(true))
			}
			g.emit(op, false)
		case 13:
			op := Op{Obj: s0, M: "UnsetLogLevel"}
			for k := r.Range(1, 3); k > 0; k-- {
				op.Args = append(op.Args, g.lvlArg(false))
			}
			g.emit(op, false)
		case 14:
			if r.Bool(0.2) {
				g.emit(Op{Obj: s0, M: r.PickStr("SetMutex", "Mutex")}, false)
			} else {
				g.emit(Op{Obj: s0, M: "Push", Args: []Val{g.plain()}}, false)
			}
		case 15:
			if r.Bool(0.3) {
				g.emit(Op{Obj: s0, M: "Reset"}, false)
			} else {
				g.emit(Op{Obj: s0, M: "Pop"}, false)
			}
		}
	}
	return g.tr
}

var c18keys = histKeys{content: true, opts: true}

type c18state struct {
	*histState
	dumps   []string
	changed map[string]bool
}

func (c18) Begin(x *Exec) {
	x.state = &c18state{histState: newHistState(x), changed: map[string]bool{}}
}

func (c18) AfterSetup(x *Exec) { x.state.(*c18state).dumps = x.w.snapshot() }

func (c18) AfterOp(x *Exec, task, idx int, op Op, out Outcome) {
	st := x.state.(*c18state)
	if out.Panic != "" {
		x.fail("panic:"+op.M, fmt.Sprintf("%s panicked: %s", op, out.Panic))
		return
	}
	before := st.m
	if why := st.stepModel(x, op, out, c18keys); why != "" {
		x.fail("model-mismatch:"+mismatchSite(op, why), fmt.Sprintf("after %s: %s", op, why))
		return
	}
	now := x.w.snapshot()
	if st.dumps != nil {
		// the raw option word: only the addressed option's own bit may move
		b, okb := rawOpt(st.dumps[op.Obj])
		a, oka := rawOpt(now[op.Obj])
		if okb && oka {
			diff := a ^ b
			o, isOpt := optOf[op.M]
			switch {
			case !isOpt && diff != 0:
				x.fail("option-word-changed:"+op.M, fmt.Sprintf("%s is not an option setter but changed the raw option word from %d to %d", op, b, a))
				return
			case isOpt && diff != 0:
				if bits.OnesCount64(diff) != 1 {
					x.fail("neighbour-option-changed:"+o, fmt.Sprintf("%s changed more than one option bit: raw option word %d -> %d", op, b, a))
					return
				}
				key := string(x.w.objs[op.Obj].T) + o
				if prev, ok := st.optBit[key]; ok && prev != diff {
					x.fail("option-bit-unstable:"+o, fmt.Sprintf("%s moved bit %d, but option %s moved bit %d before", op, diff, o, prev))
					return
				}
				for k2, v2 := range st.optBit {
					if k2 != key && k2[0] == key[0] && v2 == diff {
						x.fail("option-bit-shared:"+o, fmt.Sprintf("%s moved bit %d which belongs to %s", op, diff, k2[1:]))
						return
					}
				}
				st.optBit[key] = diff
			}
		}
		// objects that are neither receiver nor argument must not change
		for i := range now {
			if i != op.Obj && !touches(op, i) && now[i] != st.dumps[i] {
				x.fail("collateral-change:"+op.M, fmt.Sprintf("%s changed %s:\n before: %s\n after:  %s", op, x.w.objs[i].name, st.dumps[i], now[i]))
				return
			}
		}
	}
	if st.dumps != nil && now[op.Obj] != st.dumps[op.Obj] {
		name := op.M
		if o, ok := optOf[op.M]; ok {
			name = o
		}
		st.changed[string(x.w.objs[op.Obj].T)+name] = true
		if _, isOpt := optOf[op.M]; isOpt {
			x.fault("option-flipped")
		} else if op.M != "Push" && op.M != "Pop" && op.M != "Reset" {
			x.fault("setting-changed")
		}
		if len(st.changed) >= 4 {
			x.stats.NonTrivial = true
		}
	}
	st.dumps = now
	sig := ""
	if m := st.m.S[op.Obj]; m != nil {
		sig = m.key()
	} else if m := st.m.C[op.Obj]; m != nil {
		sig = fmt.Sprint(m.Opt, m.Log, len(m.Enc))
	}
	_ = before
	x.stats.ShapeSig += fmt.Sprintf("%d.%s>%x,", op.Obj, op.M, hashStr(sig))
}
