package main

import (
	"fmt"
	"strings"

	stackage "github.com/JesseCoretta/go-stackage"
)

// C20 — Reveal only removes redundant wrappers.

type c20 struct{ baseProp }

func init() { register(c20{}) }

func (c20) ID() string { return "C20" }
func (c20) Technique() string {
	return "deterministic simulation: trees built by seeded histories with mutex on random nodes; Reveal on the root alone (leaf-sequence conservation, depth bound, survival of parenthetical/NOT nodes, equal normal forms) and under the scheduler against tasks mutating nested mutex-enabled nodes (deadlock and re-entrant acquisition detection through the lock hooks, panic-freedom)"
}
func (c20) Runs(tier string) int {
	if tier == "thorough" {
		return 7500000
	}
	return 500000
}
func (c20) Rule() string {
	return "tree of 3-9 stacks (every kind, parenthetical flags, single-child chains, empty stacks, shared sub-stacks, index options) and 0-3 Conditions holding stacks or primitives, built by seeded Push/SetExpression histories; SetMutex on a random subset; sequential (70%): Reveal on the root, once or twice; concurrent (30%): Reveal on the root while 1-2 tasks Push/Pop/Insert on nested nodes. non-trivial = at least one wrapper was actually removed (sequential) or a context switch happened while Reveal held a lock (concurrent); distinct = hash(tree shape with flags / schedule)"
}
func (c20) WantsStepDumps() bool { return false }

func (c20) Gen(r *Rng, tier string, run int) *Trace {
	g := newHgen(r, "C20")
	ns := r.Range(3, 9)
	nc := r.Range(0, 3)
	var stacks, conds []int
	for i := 0; i < ns; i++ {
		k := g.kind()
		if r.Bool(0.15) {
			k = "NOT"
		}
		stacks = append(stacks, g.addStack(k, 0))
	}
	for i := 0; i < nc; i++ {
		conds = append(conds, g.addCond("kw"+itoa(i), r.Range(1, 6), vStr("ex"+itoa(i))))
	}
	// shape: node i>0 hangs under an earlier stack, or is the expression of a condition
	children := map[int][]Val{}
	condOf := map[int]int{} // cond -> stack expression
	usedCond := map[int]bool{}
	for i := 1; i < ns; i++ {
		if len(conds) > 0 && r.Bool(0.2) {
			c := conds[r.Intn(len(conds))]
			if _, taken := condOf[c]; !taken {
				condOf[c] = stacks[i]
				continue
			}
		}
		p := stacks[r.Intn(i)]
		d := dNative
		if r.Bool(0.15) {
			d = r.PickInt(dAlias, dAliasStr, dPtrAlias, dPtrNative)
		}
		children[p] = append(children[p], vRef(stacks[i], d))
		if r.Bool(0.07) {
			// a shared sub-stack: appears twice in the tree (never an ancestor: i is newer than every possible parent)
			p2 := stacks[r.Intn(i)]
			children[p2] = append(children[p2], vRef(stacks[i], dNative))
		}
	}
	for _, c := range conds {
		p := stacks[r.Intn(ns)]
		// a condition may not hang below its own expression stack: only allow parents older than the expression
		if e, ok := condOf[c]; ok && p >= e {
			p = stacks[0]
		}
		children[p] = append(children[p], vRef(c, r.PickInt(dNative, dNative, dNative, dAlias, dPtrNative)))
		usedCond[c] = true
	}
	// leaves: wrappers (single child) stay single with probability 0.5
	for _, s := range stacks {
		n := len(children[s])
		switch {
		case n == 1 && r.Bool(0.55):
		case n == 0 && r.Bool(0.25):
		default:
			for k := r.Range(1, 2); k > 0; k-- {
				v := g.plain()
				if r.Bool(0.5) {
					children[s] = append(children[s], v)
				} else {
					children[s] = append([]Val{v}, children[s]...)
				}
			}
		}
	}
	for _, c := range conds {
		e, ok := condOf[c]
		if !ok {
			continue
		}
		g.emit(Op{Obj: c, M: "SetExpression", Args: []Val{vRef(e, r.PickInt(dNative, dNative, dAliasStr))}}, true)
	}
	for _, s := range stacks {
		if len(children[s]) > 0 {
			g.emit(Op{Obj: s, M: "Push", Args: children[s]}, true)
		}
		if r.Bool(0.3) {
			g.emit(Op{Obj: s, M: "SetParen", Args: []Val{vBool(true)}}, true)
		}
		if r.Bool(0.1) {
			g.emit(Op{Obj: s, M: "SetForwardIndices", Args: []Val{vBool(true)}}, true)
		}
		if r.Bool(0.1) {
			g.emit(Op{Obj: s, M: "SetNegativeIndices", Args: []Val{vBool(true)}}, true)
		}
		if r.Bool(0.1) {
			g.emit(Op{Obj: s, M: "SetFIFO", Args: []Val{vBool(true)}}, true)
		}
	}
	for _, c := range conds {
		if r.Bool(0.3) {
			g.emit(Op{Obj: c, M: "SetParen", Args: []Val{vBool(true)}}, true)
		}
	}
	conc := r.Bool(0.3)
	mutexP := 0.3
	if conc {
		// every node other tasks mutate must have its mutex: unsynchronised
		// concurrent mutators are promised nothing
		mutexP = 1
	}
	for _, s := range stacks {
		if r.Bool(mutexP) {
			g.emit(Op{Obj: s, M: "SetMutex"}, true)
		}
	}
	root := stacks[0]
	if !conc {
		g.tr.Config = "seq"
		g.emit(Op{Obj: root, M: "Reveal", Tag: "reveal"}, false)
		if r.Bool(0.3) {
			g.emit(Op{Obj: root, M: "Reveal", Tag: "reveal"}, false)
		}
		return g.tr
	}
	g.tr.Config = "conc"
	g.tr.Seq = false
	g.tr.Tasks = [][]Op{{{Obj: root, M: "Reveal", Tag: "reveal"}}}
	for t := r.Range(1, 2); t > 0; t-- {
		var prog []Op
		for k := r.Range(1, 3); k > 0; k-- {
			s := stacks[r.Range(1, ns-1)]
			switch r.Intn(4) {
			case 0, 1:
				prog = append(prog, Op{Obj: s, M: "Push", Args: []Val{g.uv()}})
			case 2:
				prog = append(prog, Op{Obj: s, M: "Pop"})
			case 3:
				prog = append(prog, Op{Obj: s, M: "Insert", Args: []Val{g.uv(), vInt(0)}})
			}
		}
		g.tr.Tasks = append(g.tr.Tasks, prog)
	}
	g.tr.Knobs = Knobs{Stay: []float64{0.2, 0.6}[r.Intn(2)], PreemptWant: 0.7, CfgYield: []int{0, 0, 7, 2}[r.Intn(4)]}
	return g.tr
}

// ---------------------------------------------------------------------
// harness-side view of the real tree

type tnode struct {
	kind     byte // 'S' stack, 'C' condition, 'L' leaf
	name     string
	paren    bool
	not      bool
	children []*tnode // stack elements; for a condition: the expression (one child)
	cond     string   // keyword and operator
	leaf     string
}

func (p c20) view(x *Exec, v any, depth int) *tnode {
	w := x.w
	if depth > 40 {
		return &tnode{kind: 'L', leaf: "<too-deep>"}
	}
	kind, inst, _ := stackage.VerifID(v)
	switch kind {
	case "stack":
		st := stackage.VerifDump(v)
		n := &tnode{kind: 'S', name: "S?"}
		if i, ok := w.byInst[inst]; ok {
			n.name = w.objs[i].name
			n.not = w.objs[i].spec.Kind == "NOT"
		}
		if s, ok := stackage.ConvertStack(v); ok {
			n.paren = s.IsParen()
		}
		for _, e := range st.Slots {
			n.children = append(n.children, p.view(x, e, depth+1))
		}
		return n
	case "cond":
		st := stackage.VerifDump(v)
		n := &tnode{kind: 'C', name: "C?"}
		if i, ok := w.byInst[inst]; ok {
			n.name = w.objs[i].name
		}
		if c, ok := stackage.ConvertCondition(v); ok {
			n.paren = c.IsParen()
		}
		n.cond = st.Kw + " " + w.describe(st.Op)
		n.children = []*tnode{p.view(x, st.Ex, depth+1)}
		return n
	}
	return &tnode{kind: 'L', leaf: w.describe(v)}
}

func (n *tnode) leaves(out *[]string) {
	switch n.kind {
	case 'L':
		*out = append(*out, n.leaf)
	case 'C':
		*out = append(*out, "cond("+n.cond+")")
		n.children[0].leaves(out)
	default:
		for _, c := range n.children {
			c.leaves(out)
		}
	}
}

func (n *tnode) depth() int {
	d := 0
	for _, c := range n.children {
		if cd := c.depth(); cd > d {
			d = cd
		}
	}
	if n.kind == 'L' {
		return 0
	}
	return d + 1
}

func (n *tnode) special(out map[string]bool) {
	if n.kind == 'S' && (n.paren || n.not) {
		out[n.name] = true
	}
	for _, c := range n.children {
		c.special(out)
	}
}

// normal form: every stack that is neither parenthetical nor NOT and has
// exactly one child that is a non-parenthetical Stack or Condition is
// replaced by that child, bottom-up; the root and a Condition's own
// expression stack are never replaced themselves.
func nfChild(n *tnode) *tnode {
	switch n.kind {
	case 'L':
		return n
	case 'C':
		c := *n
		c.children = []*tnode{nfKeep(n.children[0])}
		return &c
	}
	s := nfKeep(n)
	if !s.paren && !s.not && len(s.children) == 1 {
		if ch := s.children[0]; (ch.kind == 'S' || ch.kind == 'C') && !ch.paren {
			return ch
		}
	}
	return s
}

func nfKeep(n *tnode) *tnode {
	if n.kind != 'S' {
		return nfChild(n)
	}
	c := *n
	c.children = nil
	for _, ch := range n.children {
		c.children = append(c.children, nfChild(ch))
	}
	return &c
}

func (n *tnode) render(b *strings.Builder) {
	switch n.kind {
	case 'L':
		b.WriteString(n.leaf)
	case 'C':
		b.WriteString("C{" + n.cond + " ")
		n.children[0].render(b)
		b.WriteString("}")
	default:
		if n.not {
			b.WriteString("!")
		}
		if n.paren {
			b.WriteString("(")
		} else {
			b.WriteString("[")
		}
		for i, c := range n.children {
			if i > 0 {
				b.WriteString(" ")
			}
			c.render(b)
		}
		if n.paren {
			b.WriteString(")")
		} else {
			b.WriteString("]")
		}
	}
}

func renderTree(n *tnode) string {
	var b strings.Builder
	n.render(&b)
	return b.String()
}

// shape without names (for distinctness)
func (n *tnode) shape(b *strings.Builder) {
	switch n.kind {
	case 'L':
		b.WriteString("l")
	case 'C':
		b.WriteString("c")
		n.children[0].shape(b)
	default:
		if n.not {
			b.WriteString("!")
		}
		if n.paren {
			b.WriteString("(")
		} else {
			b.WriteString("[")
		}
		for _, c := range n.children {
			c.shape(b)
		}
		b.WriteString("]")
	}
}

type c20state struct {
	before     *tnode
	mutated    bool
	revealHeld bool
	switched   bool
}

func (c20) Begin(x *Exec) { x.state = &c20state{} }

func (p c20) AfterSetup(x *Exec) {
	st := x.state.(*c20state)
	st.before = p.view(x, x.w.objs[0].keep, 0)
}

func (p c20) compare(x *Exec, before, after *tnode, what string) bool {
	var lb, la []string
	before.leaves(&lb)
	after.leaves(&la)
	if strings.Join(lb, " ") != strings.Join(la, " ") {
		x.fail("leaves-changed:Reveal", fmt.Sprintf("%s: the depth-first leaf sequence changed\n before: %s\n after:  %s\n tree before: %s\n tree after:  %s", what, strings.Join(lb, " "), strings.Join(la, " "), renderTree(before), renderTree(after)))
		return false
	}
	if db, da := before.depth(), after.depth(); da > db {
		x.fail("depth-grew:Reveal", fmt.Sprintf("%s: nesting depth grew from %d to %d\n tree before: %s\n tree after:  %s", what, db, da, renderTree(before), renderTree(after)))
		return false
	}
	sb, sa := map[string]bool{}, map[string]bool{}
	before.special(sb)
	after.special(sa)
	for n := range sb {
		if !sa[n] {
			x.fail("special-node-removed:Reveal", fmt.Sprintf("%s: parenthetical or NOT stack %s was removed\n tree before: %s\n tree after:  %s", what, n, renderTree(before), renderTree(after)))
			return false
		}
	}
	nb, na := renderTree(nfKeep(before)), renderTree(nfKeep(after))
	if nb != na {
		x.fail("normal-form-differs:Reveal", fmt.Sprintf("%s: the trees before and after do not reduce to the same fully-unwrapped form\n normal form before: %s\n normal form after:  %s\n tree before: %s\n tree after:  %s", what, nb, na, renderTree(before), renderTree(after)))
		return false
	}
	return true
}

func (p c20) AfterOp(x *Exec, task, idx int, op Op, out Outcome) {
	st := x.state.(*c20state)
	if out.Panic != "" {
		x.fail("panic:"+op.M, fmt.Sprintf("%s panicked: %s", op, out.Panic))
		return
	}
	if task < 0 {
		return
	}
	if op.Tag != "reveal" {
		st.mutated = true
		return
	}
	after := p.view(x, x.w.objs[0].keep, 0)
	if x.tr.Config == "conc" {
		// leaf conservation only when nobody else touched the tree meanwhile
		if st.mutated || len(x.history) > 1 {
			x.probe("reveal-raced-with-mutators")
			return
		}
		for _, t := range x.tasks {
			if t.id != task && (t.opIdx > 0 || t.yields > 0) {
				x.probe("reveal-raced-with-mutators")
				return
			}
		}
	}
	if !p.compare(x, st.before, after, "Reveal on "+x.w.objs[0].name) {
		return
	}
	if renderTree(st.before) != renderTree(after) {
		x.fault("wrapper-removed")
		x.stats.NonTrivial = true
	}
	var b strings.Builder
	st.before.shape(&b)
	x.stats.ShapeSig += b.String()
	st.before = after
}

func (c20) AfterStep(x *Exec, t *task, ev event, pre []string, held map[uintptr]bool) {
	st := x.state.(*c20state)
	if t.id == 0 && len(t.held) > 0 {
		st.revealHeld = true
	}
	if t.id != 0 && st.revealHeld && x.tasks[0].state != tDone {
		st.switched = true
	}
}

func (c20) End(x *Exec) {
	st := x.state.(*c20state)
	if x.tr.Config == "conc" {
		x.stats.NonTrivial = st.switched
		if st.switched {
			x.fault("preempted-while-reveal-holds-a-lock")
		}
		var b strings.Builder
		st.before.shape(&b)
		x.stats.ShapeSig = "conc:" + b.String() + fmt.Sprint(x.sched)
	}
}
