package main

import (
	"bufio"
	"bytes"
	"encoding/json"
	"fmt"
	"os"
	"os/exec"
	"path/filepath"
	"runtime"
	"sort"
	"strconv"
	"strings"
	"sync"
	"time"
)

type wstate struct {
	idx      int
	res      *WorkerResult
	lastCkpt int
	lastRun  int
	exit     int
	stderr   string
	hang     string
}

func nWorkers() int {
	if s := os.Getenv("VERIF_WORKERS"); s != "" {
		if v, err := strconv.Atoi(s); err == nil && v > 0 {
			return v
		}
	}
	n := runtime.NumCPU()
	if n > 16 {
		n = 16
	}
	if n < 1 {
		n = 1
	}
	return n
}

func runWorker(self, id, tier string, seed uint64, w, n, runs int, announce bool, from int) *wstate {
	args := []string{"worker", id, tier, strconv.FormatUint(seed, 10), strconv.Itoa(w), strconv.Itoa(n), strconv.Itoa(runs)}
	if announce {
		args = append(args, "announce", strconv.Itoa(from))
	} else if from > 0 {
		args = append(args, "quiet", strconv.Itoa(from))
	}
	cmd := exec.Command(self, args...)
	cmd.Env = append(os.Environ(), "GOMAXPROCS=2")
	var errb bytes.Buffer
	cmd.Stderr = &errb
	out, _ := cmd.StdoutPipe()
	st := &wstate{idx: w, lastCkpt: -1, lastRun: -1}
	if err := cmd.Start(); err != nil {
		st.exit = 2
		st.stderr = err.Error()
		return st
	}
	sc := bufio.NewScanner(out)
	sc.Buffer(make([]byte, 1<<20), 256<<20)
	for sc.Scan() {
		line := sc.Bytes()
		var m map[string]json.RawMessage
		if json.Unmarshal(line, &m) != nil {
			continue
		}
		if v, ok := m["ckpt"]; ok {
			_ = json.Unmarshal(v, &st.lastCkpt)
		}
		if v, ok := m["run"]; ok {
			_ = json.Unmarshal(v, &st.lastRun)
		}
		if v, ok := m["hang"]; ok {
			_ = json.Unmarshal(v, &st.hang)
		}
		if v, ok := m["result"]; ok {
			var r WorkerResult
			if json.Unmarshal(v, &r) == nil {
				st.res = &r
			}
		}
	}
	err := cmd.Wait()
	if err != nil {
		if ee, ok := err.(*exec.ExitError); ok {
			st.exit = ee.ExitCode()
		} else {
			st.exit = 2
		}
	}
	st.stderr = errb.String()
	return st
}

type Evidence struct {
	PropertyID  string         `json:"property_id"`
	Tier        string         `json:"tier"`
	Seed        int64          `json:"seed"`
	Level       string         `json:"level"`
	Coverage    map[string]any `json:"coverage"`
	Assumptions []string       `json:"assumptions"`
	WallS       float64        `json:"wall_s"`
	Violations  int            `json:"violations"`
}

var commonAssumptions = []string{
	"the package's only blocking primitive is the per-stack sync.Mutex reached through lock()/unlock(); another lock or goroutine without a hook would make a step hang (reported as hang after confirmation)",
	"interleavings are explored at hook granularity (lock.want, lock.held, lock.released, configuration reads, harness closures, operation boundaries), not per memory access",
	"VerifDump covers instance state (every configuration field by reflection, every slot), not package-level variables",
	"the reference model's reading of the property statement is the one in DESIGN.md section 4; corners listed there as unspecified are accepted either way",
	"harness closures are pure except for their logs; a clean batch is evidence from seeded sampling, not proof",
}

func driver(id, tier string) int {
	p := registry[id]
	if p == nil {
		fmt.Fprintln(os.Stderr, "unknown property", id)
		return 2
	}
	if tier != "quick" && tier != "thorough" {
		fmt.Fprintln(os.Stderr, "tier must be quick or thorough")
		return 2
	}
	self, err := os.Executable()
	if err != nil {
		fmt.Fprintln(os.Stderr, err)
		return 2
	}
	seed := envSeed()
	runs := p.Runs(tier)
	if s := os.Getenv("VERIF_RUNS"); s != "" {
		if v, err := strconv.Atoi(s); err == nil && v > 0 {
			runs = v
		}
	}
	nw := nWorkers()
	t0 := time.Now()
	// replay files of earlier runs of this check are stale
	if old, err := filepath.Glob(filepath.Join(replayDir(), id+"-*.json")); err == nil {
		for _, f := range old {
			_ = os.Remove(f)
		}
	}
	fmt.Printf("property=%s tier=%s VERIF_SEED=%d runs=%d workers=%d\n", id, tier, seed, runs, nw)

	states := make([]*wstate, nw)
	var wg sync.WaitGroup
	for w := 0; w < nw; w++ {
		wg.Add(1)
		go func(w int) {
			defer wg.Done()
			states[w] = runWorker(self, id, tier, seed, w, nw, runs, false, 0)
		}(w)
	}
	wg.Wait()

	infra := false
	var viols []VRec
	merged := WorkerResult{Probes: map[string]int{}, Faults: map[string]int{}, Known: map[string]int{}, KnownMsg: map[string]string{}, Linear: map[string]int{}}
	shapes := map[uint64]bool{}
	scheds := map[uint64]bool{}
	lockOrders := map[uint64]bool{}
	for _, st := range states {
		if st.res == nil {
			// the worker died: a Go fatal error, a hang, or harness trouble
			v, ok := diagnoseCrash(self, id, tier, seed, st, nw, runs, p)
			if ok {
				viols = append(viols, v)
			} else {
				infra = true
				fmt.Fprintf(os.Stderr, "worker %d failed (exit %d) and the failure did not reproduce as a property violation:\n%s\n", st.idx, st.exit, tail(st.stderr, 4000))
			}
			continue
		}
		r := st.res
		merged.Runs += r.Runs
		merged.Steps += r.Steps
		merged.Switches += r.Switches
		merged.NonTrivial += r.NonTrivial
		merged.ViolRuns += r.ViolRuns
		for k, v := range r.Probes {
			merged.Probes[k] += v
		}
		for k, v := range r.Faults {
			merged.Faults[k] += v
		}
		for k, v := range r.Known {
			merged.Known[k] += v
			if _, ok := merged.KnownMsg[k]; !ok {
				merged.KnownMsg[k] = r.KnownMsg[k]
			}
		}
		for k, v := range r.Linear {
			merged.Linear[k] += v
		}
		for _, h := range r.Shapes {
			shapes[h] = true
		}
		for _, h := range r.Scheds {
			scheds[h] = true
		}
		for _, h := range r.LockOrders {
			lockOrders[h] = true
		}
		viols = append(viols, r.Viols...)
		if len(merged.Samples) < 4 {
			merged.Samples = append(merged.Samples, r.Samples...)
		}
	}

	// confirm every violation by a strict replay in a fresh process
	var confirmed []VRec
	seen := map[string]bool{}
	sort.Slice(viols, func(i, j int) bool {
		if viols[i].Sig != viols[j].Sig {
			return viols[i].Sig < viols[j].Sig
		}
		return viols[i].Ops < viols[j].Ops
	})
	for _, v := range viols {
		if seen[v.Sig] {
			continue
		}
		if v.Confirmed {
			seen[v.Sig] = true
			confirmed = append(confirmed, v)
			continue
		}
		path, ok := confirmReplay(self, v)
		if !ok {
			infra = true
			fmt.Fprintf(os.Stderr, "violation %s (run %d) did not reproduce in a fresh process; traces kept at %s (machinery fault, not reported as a violation)\n", v.Sig, v.Run, v.Replay)
			continue
		}
		seen[v.Sig] = true
		v.Replay = path
		confirmed = append(confirmed, v)
	}

	wall := time.Since(t0).Seconds()
	assume := append([]string(nil), commonAssumptions...)
	if nv := newPackageVars("/repo"); len(nv) > 0 {
		note := "package-level variables not in the baseline list (instance dumps do not cover them; a query writing one would go unnoticed): " + strings.Join(nv, ", ")
		assume = append(assume, note)
		fmt.Println("NOTE: " + note)
	}
	ev := Evidence{PropertyID: id, Tier: tier, Seed: int64(seed), Level: "exploration", WallS: wall, Violations: len(confirmed), Assumptions: assume}
	var samples []any
	for _, s := range merged.Samples {
		var v any
		if json.Unmarshal(s, &v) == nil {
			samples = append(samples, v)
		}
	}
	if len(samples) == 0 {
		samples = append(samples, "no non-trivial, non-violating run in this batch")
	}
	knownKeys := sortedKeys(merged.Known)
	cov := map[string]any{
		"evaluations":          merged.Runs,
		"distinct_nontrivial":  len(shapes),
		"nontrivial_runs":      merged.NonTrivial,
		"rule":                 p.Rule(),
		"samples":              samples,
		"runs_per_hour":        int(float64(merged.Runs) / wall * 3600),
		"sim_steps_total":      merged.Steps,
		"simulated_time":       "logical steps only: the library has no timers, so there is no simulated wall-clock time",
		"context_switches":     merged.Switches,
		"distinct_schedules":   len(scheds),
		"distinct_lock_orders": len(lockOrders),
		"fault_fired":          merged.Faults,
		"probes":               merged.Probes,
		"linearizability":      merged.Linear,
		"known_findings_seen":  merged.Known,
		"violating_runs":       merged.ViolRuns,
		"technique":            p.Technique(),
		"batch_seed":           seed,
		"workers":              nw,
		"planned_runs":         runs,
		"components": map[string]any{
			"real": []string{"the whole go-stackage package from /repo's working tree built with -tags verif", "sync.Mutex"},
			"stub": []string{"goroutine scheduler (seeded, cooperative)", "clock (package variable now)", "user closures (policies, marshalers, evaluator, less function)", "log sink"},
		},
	}
	var vl []any
	for _, v := range confirmed {
		vl = append(vl, v)
	}
	cov["violations_found"] = vl
	ev.Coverage = cov
	_ = os.MkdirAll(filepath.Join(verifRoot, "evidence"), 0o755)
	b, _ := json.MarshalIndent(ev, "", " ")
	_ = os.WriteFile(filepath.Join(verifRoot, "evidence", id+".json"), append(b, '\n'), 0o644)

	fmt.Printf("runs=%d nontrivial=%d distinct=%d steps=%d switches=%d wall=%.1fs (%.0f runs/h)\n", merged.Runs, merged.NonTrivial, len(shapes), merged.Steps, merged.Switches, wall, float64(merged.Runs)/wall*3600)
	if len(merged.Faults) > 0 {
		fmt.Printf("faults fired: %v\n", merged.Faults)
	}
	if len(merged.Probes) > 0 {
		fmt.Printf("probes: %v\n", merged.Probes)
	}
	if len(merged.Linear) > 0 {
		fmt.Printf("linearizability: %v\n", merged.Linear)
	}
	for _, k := range knownKeys {
		fd := knownOpen[k]
		fmt.Printf("KNOWN-FINDING: property=%s %s seen in %d runs: %s\n", id, k, merged.Known[k], fd.What)
	}
	for _, v := range confirmed {
		fmt.Printf("violation %s (run %d, %d ops after minimisation from %d): %s\n", v.Sig, v.Run, v.Ops, v.Ops0, v.Msg)
		fmt.Printf("VIOLATION property=%s replay=%s\n", id, v.Replay)
	}
	if len(confirmed) > 0 {
		return 1
	}
	if infra {
		return 2
	}
	if merged.Runs < runs {
		fmt.Fprintf(os.Stderr, "only %d of %d planned runs were executed\n", merged.Runs, runs)
		return 2
	}
	fmt.Printf("OK property=%s held on %d runs\n", id, merged.Runs)
	return 0
}

func sortedKeys(m map[string]int) []string {
	var ks []string
	for k := range m {
		ks = append(ks, k)
	}
	sort.Strings(ks)
	return ks
}

func tail(s string, n int) string {
	if len(s) > n {
		return s[len(s)-n:]
	}
	return s
}

// confirmReplay replays the minimised trace strictly in a fresh process;
// if it does not reproduce, the un-minimised original is tried.
func confirmReplay(self string, v VRec) (string, bool) {
	for _, path := range []string{v.Replay, strings.TrimSuffix(v.Replay, ".json") + ".orig.json"} {
		if _, err := os.Stat(path); err != nil {
			continue
		}
		cmd := exec.Command(self, "replay", path)
		cmd.Env = append(os.Environ(), "VERIF_IGNORE_KNOWN=")
		out, _ := cmd.CombinedOutput()
		code := 0
		if cmd.ProcessState != nil {
			code = cmd.ProcessState.ExitCode()
		}
		if code == 1 && strings.Contains(string(out), "VIOLATION property=") {
			if path == v.Replay {
				_ = os.Remove(strings.TrimSuffix(v.Replay, ".json") + ".orig.json")
			}
			return path, true
		}
	}
	return "", false
}

// diagnoseCrash finds the run that killed a worker (Go fatal error or a
// hang), confirms it in fresh processes and writes a from-seed replay file.
func diagnoseCrash(self, id, tier string, seed uint64, st *wstate, nw, runs int, p Prop) (VRec, bool) {
	from := st.lastCkpt
	if from < 0 {
		from = 0
	}
	// re-run from the last checkpoint announcing every run
	culprit := -1
	var class, text string
	for attempt := 0; attempt < 2; attempt++ {
		r := runWorker(self, id, tier, seed, st.idx, nw, runs, true, from)
		if r.res != nil {
			return VRec{}, false // did not crash again
		}
		if attempt == 1 && r.lastRun != culprit {
			return VRec{}, false // crashes, but not at the same run: not reproducible
		}
		culprit = r.lastRun
		text = r.stderr
		switch {
		case r.hang != "" || r.exit == 3:
			class = "hang"
		case strings.Contains(r.stderr, "fatal error:"):
			class = "fatal"
		default:
			// an unrecovered Go panic in the worker (harness trouble) or
			// anything else: infrastructure, never a violation
			return VRec{}, false
		}
	}
	if culprit < 0 {
		return VRec{}, false
	}
	if class == "hang" && strings.Contains(text, "sync.(*Mutex).Lock") && !strings.Contains(text, "verifPoint") {
		// the stepping goroutine is parked in a lock the scheduler has no hook
		// for: a limitation of the simulator, never a violation
		fmt.Fprintf(os.Stderr, "inconclusive: run %d blocks in a sync.Mutex the scheduler has no hook for\n", culprit)
		return VRec{}, false
	}
	tr := genRun(p, seed, tier, culprit)
	site := "unknown"
	if class == "fatal" {
		if i := strings.Index(text, "fatal error:"); i >= 0 {
			line := text[i+len("fatal error:"):]
			if j := strings.Index(line, "\n"); j >= 0 {
				line = line[:j]
			}
			site = strings.TrimSpace(line)
		}
	} else {
		site = hangSite(text)
	}
	tr.Sig = id + ":" + class + ":" + sanitize(site)
	tr.Msg = class + " in run " + strconv.Itoa(culprit) + ": " + site
	path := filepath.Join(replayDir(), fmt.Sprintf("%s-%s-%d-%d.json", id, sanitize(class+"_"+site), seed, culprit))
	if err := writeTrace(path, tr); err != nil {
		return VRec{}, false
	}
	return VRec{Sig: tr.Sig, Msg: tr.Msg + "\n" + tail(text, 1500), Replay: path, Run: culprit, Seed: tr.Seed, Ops: tr.nops(), Ops0: tr.nops(), Confirmed: true}, true
}

func hangSite(stacks string) string {
	for _, line := range strings.Split(stacks, "\n") {
		if strings.Contains(line, "go-stackage.") && !strings.Contains(line, "verifPoint") && !strings.Contains(line, "Verif") {
			l := strings.TrimSpace(line)
			if i := strings.Index(l, "go-stackage."); i >= 0 {
				l = l[i+len("go-stackage."):]
			}
			if i := strings.Index(l, "("); i > 0 && !strings.HasPrefix(l, "(") {
				l = l[:i]
			}
			return l
		}
	}
	return "unknown"
}
