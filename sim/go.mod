module verif/sim

go 1.20

require (
	github.com/JesseCoretta/go-stackage v0.0.0
	github.com/anishathalye/porcupine v1.3.0
)

replace github.com/JesseCoretta/go-stackage => /repo
