package main

import (
	"fmt"
	"strconv"
	"strings"

	stackage "github.com/JesseCoretta/go-stackage"
)

// The history engine: one task, a seeded history of operations and
// fault events (capacity exhaustion, FIFO latch, Reset, option flips,
// read-only fence, hostile requests) against the reference model, which
// is consulted after every single operation. Each property enables its
// own alphabet and its own assertions.

type histState struct {
	prev    []string // dumps after the previous operation
	m       *MWorld
	optBit  map[string]uint64 // learned: which raw option bit belongs to which option
	lastErr map[int]string
}

type histKeys struct {
	content  bool // Len IsEmpty Index* Front Back
	cap      bool // Cap Avail IsFull
	nest     bool // CanNest IsNesting
	opts     bool // option getters, raw option word, string settings, log levels
	fifo     bool
	condFull bool // Condition: validity, rendering, Err
	noCond   bool // Conditions are not modelled in this property
}

func newHistState(x *Exec) *histState {
	st := &histState{m: &MWorld{Clos: x.tr.Closures, Ncons: map[string]int{}}, optBit: map[string]uint64{}, lastErr: map[int]string{}}
	for _, s := range x.tr.Objs {
		switch s.T {
		case "S", "ZS":
			st.m.S = append(st.m.S, newMStack(s))
			st.m.C = append(st.m.C, nil)
		default:
			st.m.S = append(st.m.S, nil)
			st.m.C = append(st.m.C, newMCond(s, elemFn(x.w)))
		}
	}
	return st
}

// genElem is the ElemFn used while generating (no world yet): only
// lengths and stack-ness matter there.
func genElem(objs []ObjSpec) ElemFn {
	return func(v Val) MElem {
		e := MElem{D: v.String(), Nil: v.K == "nil"}
		if v.K == "ref" && int(v.I) < len(objs) {
			e.IsStack = objs[v.I].T == "S"
			e.IsCond = objs[v.I].T == "C" || objs[v.I].T == "IC"
		}
		return e
	}
}

// cmpStack compares the real stack i with model m on the selected keys and
// returns "" or a description of the first difference.
func cmpStack(x *Exec, i int, m *MStack, k histKeys) string {
	o := x.w.objs[i]
	s := o.keep
	if s.IsZero() {
		s = *o.S
	}
	w := x.w
	L := len(m.Elems)
	if k.content {
		if g := s.Len(); g != L {
			return fmt.Sprintf("Len()=%d, ordered list has %d", g, L)
		}
		if g := s.IsEmpty(); g != (L == 0) {
			return fmt.Sprintf("IsEmpty()=%v with %d elements", g, L)
		}
		for idx := -(L + 1); idx <= L+1; idx++ {
			gv, gok := s.Index(idx)
			wantD, wantOK := "nil", false
			if p, ok := m.resolve(idx); ok {
				e := m.Elems[p]
				wantD, wantOK = e.D, !e.Nil
			}
			if gok != wantOK || (wantD != wild && w.describe(gv) != wantD) {
				return fmt.Sprintf("Index(%d)=(%s,%v), ordered list says (%s,%v)", idx, w.describe(gv), gok, wantD, wantOK)
			}
		}
		// Front / Back: newest end is the right end
		if L == 0 {
			if v, ok := s.Front(); ok || v != nil {
				return fmt.Sprintf("Front()=(%s,%v) on an empty stack", w.describe(v), ok)
			}
			if v, ok := s.Back(); ok || v != nil {
				return fmt.Sprintf("Back()=(%s,%v) on an empty stack", w.describe(v), ok)
			}
		} else {
			left, right := m.Elems[0], m.Elems[L-1]
			front, back := right, left
			if m.Fifo {
				front, back = left, right
			}
			if !front.Nil && front.D != wild {
				if v, ok := s.Front(); !ok || w.describe(v) != front.D {
					return fmt.Sprintf("Front()=(%s,%v), ordered list says %s", w.describe(v), ok, front.D)
				}
			}
			if !back.Nil && back.D != wild {
				if v, ok := s.Back(); !ok || w.describe(v) != back.D {
					return fmt.Sprintf("Back()=(%s,%v), ordered list says %s", w.describe(v), ok, back.D)
				}
			}
		}
	}
	if k.fifo {
		if g := s.IsFIFO(); g != m.Fifo {
			return fmt.Sprintf("IsFIFO()=%v, expected %v", g, m.Fifo)
		}
	}
	if k.cap {
		wc, wa, wf := -1, -1, false
		if m.Cap > 0 {
			wc, wa, wf = m.Cap, m.Cap-L, L == m.Cap
		}
		if g := s.Len(); m.Cap > 0 && g > m.Cap {
			return fmt.Sprintf("Len()=%d exceeds capacity %d", g, m.Cap)
		}
		if g := s.Cap(); g != wc {
			return fmt.Sprintf("Cap()=%d, expected %d", g, wc)
		}
		if g := s.Avail(); g != wa {
			return fmt.Sprintf("Avail()=%d, expected %d (capacity %d, %d elements)", g, wa, m.Cap, L)
		}
		if g := s.IsFull(); g != wf {
			return fmt.Sprintf("IsFull()=%v, expected %v (capacity %d, %d elements)", g, wf, m.Cap, L)
		}
	}
	if k.nest {
		if g := s.CanNest(); g != !m.Opt["nnest"] {
			return fmt.Sprintf("CanNest()=%v while no-nesting is %v", g, m.Opt["nnest"])
		}
		nesting := false
		for _, e := range m.Elems {
			if e.IsStack {
				nesting = true
			}
		}
		if g := s.IsNesting(); g != nesting {
			return fmt.Sprintf("IsNesting()=%v, a stack element present: %v", g, nesting)
		}
	}
	if k.opts {
		if g := s.IsParen(); g != m.Opt["paren"] {
			return fmt.Sprintf("IsParen()=%v, expected %v", g, m.Opt["paren"])
		}
		if g := s.IsPadded(); g != !m.Opt["nopad"] {
			return fmt.Sprintf("IsPadded()=%v, expected %v", g, !m.Opt["nopad"])
		}
		if g := s.IsReadOnly(); g != m.Opt["ronly"] {
			return fmt.Sprintf("IsReadOnly()=%v, expected %v", g, m.Opt["ronly"])
		}
		if g := s.CanNest(); g != !m.Opt["nnest"] {
			return fmt.Sprintf("CanNest()=%v, expected %v", g, !m.Opt["nnest"])
		}
		if g := s.IsEncap(); g != (len(m.Enc) > 0) {
			return fmt.Sprintf("IsEncap()=%v with %d encapsulation pairs", g, len(m.Enc))
		}
		if g := s.IsFIFO(); g != m.Fifo {
			return fmt.Sprintf("IsFIFO()=%v, expected %v", g, m.Fifo)
		}
		if g := s.ID(); g != m.ID {
			return fmt.Sprintf("ID()=%q, expected %q", g, m.ID)
		}
		if g := s.Category(); g != m.Cat {
			return fmt.Sprintf("Category()=%q, expected %q", g, m.Cat)
		}
		if g := s.Delimiter(); g != m.Delim {
			return fmt.Sprintf("Delimiter()=%q, expected %q", g, m.Delim)
		}
		if g := s.LogLevels(); g != logString(m.Log) {
			return fmt.Sprintf("LogLevels()=%q, expected %q", g, logString(m.Log))
		}
		if g := s.CanMutex(); g != m.Mutex {
			return fmt.Sprintf("CanMutex()=%v, expected %v", g, m.Mutex)
		}
		// Kind() doubles as the getter of the symbol
		wk := m.Kind
		if m.Opt["fold"] {
			wk = strings.ToLower(wk)
		}
		if m.Sym != "" {
			wk = m.Sym
		}
		if g := s.Kind(); g != wk {
			return fmt.Sprintf("Kind()=%q, expected %q (symbol %q, fold %v)", g, wk, m.Sym, m.Opt["fold"])
		}
		if m.Aux != "" {
			if g := w.describe(s.Auxiliary()); g != m.Aux && m.Aux != wild {
				return fmt.Sprintf("Auxiliary()=%s, expected %s", g, m.Aux)
			}
		}
		// settings without a getter: read from the raw dump when the field is there
		d := w.dump(i)
		if f := dumpField(d, "enc"); f != "" {
			if want := encText(m.Enc); normEnc(f) != normEnc(want) {
				return fmt.Sprintf("encapsulation list is %s, expected %s", f, want)
			}
		}
		if f := dumpField(d, "sym"); f != "" {
			if f != strconv.Quote(m.Sym) {
				return fmt.Sprintf("symbol is %s, expected %q", f, m.Sym)
			}
		}
	}
	return ""
}

func encText(enc [][]string) string {
	if enc == nil {
		return "[]nil"
	}
	var p []string
	for _, pair := range enc {
		var q []string
		for _, c := range pair {
			q = append(q, strconv.Quote(c))
		}
		p = append(p, "["+strings.Join(q, ",")+"]")
	}
	return "[" + strings.Join(p, ",") + "]"
}

// rawOpt reads the raw option word from the dump (0,false if the field is
// not there under that name).
func rawOpt(d string) (uint64, bool) {
	f := dumpField(d, "opt")
	if f == "" {
		return 0, false
	}
	v, err := strconv.ParseUint(f, 10, 64)
	return v, err == nil
}

// stepModel applies op to the model, compares results and observations on
// every admissible alternative and commits the one that matches.
// It returns a description of the mismatch, or "".
func (st *histState) stepModel(x *Exec, op Op, out Outcome, k histKeys) string {
	w := x.w
	o := w.objs[op.Obj]
	var alts []Alt
	if o.T == 'S' {
		alts = st.m.applyStack(op, o.name, elemFn(w))
	} else {
		alts = st.m.applyCond(op, o.name, elemFn(w), w)
	}
	if alts == nil {
		panic("harness: operation not modelled: " + op.String())
	}
	first := ""
	for _, a := range alts {
		why := ""
		if !retsMatch(a.Rets, out.Ret) {
			why = fmt.Sprintf("returned %s, expected (%s)", out, strings.Join(a.Rets, ", "))
		} else {
			for i := range w.objs {
				if !touches(op, i) {
					continue
				}
				if a.W.S[i] != nil && a.W.S[i].Live && !w.objs[i].keep.IsZero() {
					if d := cmpStack(x, i, a.W.S[i], k); d != "" {
						why = w.objs[i].name + ": " + d
						break
					}
				} else if a.W.C[i] != nil && a.W.C[i].Live && !k.noCond {
					if d := cmpCond(x, i, a.W.C[i], k); d != "" {
						why = w.objs[i].name + ": " + d
						break
					}
				}
			}
		}
		if why == "" {
			// nothing that is neither receiver nor argument may change
			now := w.snapshot()
			if st.prev != nil {
				for i := range now {
					if !touches(op, i) && now[i] != st.prev[i] {
						return fmt.Sprintf("collateral change: %s (neither receiver nor argument) changed (%s):\n before: %s\n after:  %s", w.objs[i].name, diffFields(st.prev[i], now[i]), st.prev[i], now[i])
					}
				}
			}
			st.prev = now
			st.m = a.W
			return ""
		}
		if first == "" {
			first = why
		}
	}
	return first
}

// ---------------------------------------------------------------------
// generation helpers shared by the history properties

type hgen struct {
	r    *Rng
	tr   *Trace
	m    *MWorld // the model, run during generation to know lengths
	uniq int
	// big: this run leaves the small bounds on purpose (swarm style, about one
	// run in eight): some Push calls offer 12-40 values at once, so lengths pass
	// 16/32 and capacities are overrun by far; some values are multi-byte UTF-8
	// or longer than 128 bytes. Fast paths and fixed buffers live beyond the
	// sizes the ordinary runs reach (wave 10 of the seeded changes).
	big  bool
	last Op // the operation as emitted last (a bulk Push has more arguments than the caller gave)
}

func newHgen(r *Rng, id string) *hgen {
	g := &hgen{r: r, tr: &Trace{Prop: id, Seq: true, Tasks: [][]Op{nil}}, m: &MWorld{Ncons: map[string]int{}}}
	g.big = r.Bool(0.125)
	return g
}

func (g *hgen) addStack(kind string, cap int) int {
	s := ObjSpec{T: "S", Kind: kind, Cap: cap}
	g.tr.Objs = append(g.tr.Objs, s)
	g.m.S = append(g.m.S, newMStack(s))
	g.m.C = append(g.m.C, nil)
	return len(g.tr.Objs) - 1
}

func (g *hgen) addZeroStack() int {
	s := ObjSpec{T: "ZS"}
	g.tr.Objs = append(g.tr.Objs, s)
	g.m.S = append(g.m.S, newMStack(s))
	g.m.C = append(g.m.C, nil)
	return len(g.tr.Objs) - 1
}

func (g *hgen) addCond(kw string, op int, ex Val) int {
	k, o := vStr(kw), vOp(op)
	s := ObjSpec{T: "C", Kw: &k, Op: &o, Ex: &ex}
	g.tr.Objs = append(g.tr.Objs, s)
	g.m.S = append(g.m.S, nil)
	g.m.C = append(g.m.C, newMCond(s, genElem(g.tr.Objs)))
	return len(g.tr.Objs) - 1
}

func (g *hgen) kind() string { return kinds[g.r.Intn(len(kinds))] }

func (g *hgen) uv() Val {
	g.uniq++
	v := "v" + strconv.Itoa(g.uniq)
	if g.big {
		switch g.r.Intn(8) {
		case 0, 1:
			v += "\u00e9\u2192\u00fc" // multi-byte UTF-8
		case 2:
			v += strings.Repeat("x", 140) // longer than any small fixed buffer
		}
	}
	return vStr(v)
}

// emit appends op to the program (or the setup) and advances the
// generation-time model.
func (g *hgen) emit(op Op, setup bool) {
	if g.big && op.M == "Push" && op.Tag == "" && op.Obj >= 0 && op.Obj < len(g.m.S) && g.m.S[op.Obj] != nil && g.r.Bool(0.4) {
		// a bulk Push: 12-40 more values in the same call
		args := append([]Val(nil), op.Args...)
		for k := g.r.Range(12, 40); k > 0; k-- {
			args = append(args, g.uv())
		}
		op.Args = args
	}
	g.last = op
	if setup {
		g.tr.Setup = append(g.tr.Setup, op)
	} else {
		g.tr.Tasks[0] = append(g.tr.Tasks[0], op)
	}
	var alts []Alt
	if op.Obj < 0 {
		return
	}
	if g.m.S[op.Obj] != nil {
		alts = g.m.applyStack(op, "self", genElem(g.tr.Objs))
	} else if g.m.C[op.Obj] != nil {
		alts = g.m.applyCond(op, "self", genElem(g.tr.Objs), nil)
	}
	if len(alts) > 0 {
		g.m = alts[0].W
	}
}

func (g *hgen) lenOf(i int) int { return len(g.m.S[i].Elems) }

// plain value: unique string mostly, sometimes a number or bool
func (g *hgen) plain() Val {
	switch g.r.Intn(10) {
	case 0:
		g.uniq++
		return vInt(1000 + g.uniq)
	case 1:
		return vBool(g.r.Bool(0.5))
	case 2:
		// zero-valued elements are elements like any other
		return []Val{vInt(0), vStr(""), vBool(false), {K: "f", I: 0}, vInt(-7), {K: "f", I: 10}}[g.r.Intn(6)]
	}
	return g.uv()
}

var _ = stackage.Eq

// touches: is object i the receiver of op or one of its arguments?
func touches(op Op, i int) bool {
	if op.Obj == i {
		return true
	}
	for _, a := range op.Args {
		if a.K == "ref" && int(a.I) == i {
			return true
		}
	}
	return false
}

// mismatchSite derives the site part of a model-mismatch signature from the
// description of the difference: the getter that disagreed, or the op for
// differences in results and content.
func mismatchSite(op Op, why string) string {
	if i := strings.Index(why, ": "); i >= 0 && i < 4 {
		why = why[i+2:]
	}
	if strings.HasPrefix(why, "returned ") {
		return op.M + ":result"
	}
	if strings.HasPrefix(why, "collateral change") {
		return op.M + ":collateral"
	}
	name := why
	if i := strings.IndexAny(name, "(= "); i > 0 {
		name = name[:i]
	}
	switch name {
	case "Len", "IsEmpty", "Index", "Front", "Back":
		return op.M + ":content"
	case "encapsulation", "symbol":
		return op.M + ":" + name
	}
	return name
}

// nil and empty encapsulation lists are the same thing
func normEnc(s string) string {
	if s == "[]nil" {
		return "[]"
	}
	return s
}
