package main

import (
	"encoding/json"
	"fmt"
	"os"
	"os/exec"
	"path/filepath"
	"sort"
	"strconv"
	"strings"
)

func usage() {
	fmt.Fprintln(os.Stderr, `usage:
  sim check <ID> quick|thorough        run the registered check of a property (driver, 16 worker processes)
  sim worker <ID> <tier> <seed> <w> <n> <runs> [announce] [from]
  sim replay <file>                    execute a trace literally; exit 1 if it violates
  sim gen <ID> <seed> <run>            print the trace generated for one run
  sim eventlog <ID> <seed> <from> <to> print the full event log of runs (determinism self-test)
  sim list                             list properties`)
	os.Exit(2)
}

func envSeed() uint64 {
	if s := os.Getenv("VERIF_SEED"); s != "" {
		if v, err := strconv.ParseUint(s, 10, 64); err == nil {
			return v
		}
		if v, err := strconv.ParseInt(s, 10, 64); err == nil {
			return uint64(v)
		}
	}
	return 1
}

func main() {
	if len(os.Args) < 2 {
		usage()
	}
	loadFindings()
	switch os.Args[1] {
	case "list":
		var ids []string
		for id := range registry {
			ids = append(ids, id)
		}
		sort.Strings(ids)
		for _, id := range ids {
			fmt.Println(id)
		}
	case "check":
		if len(os.Args) < 4 {
			usage()
		}
		os.Exit(driver(os.Args[2], os.Args[3]))
	case "worker":
		if len(os.Args) < 8 {
			usage()
		}
		os.Exit(workerMain(os.Args[2:]))
	case "replay":
		if len(os.Args) < 3 {
			usage()
		}
		os.Exit(replayMain(os.Args[2]))
	case "gen":
		if len(os.Args) < 5 {
			usage()
		}
		p := registry[os.Args[2]]
		if p == nil {
			usage()
		}
		seed, _ := strconv.ParseUint(os.Args[3], 10, 64)
		run, _ := strconv.Atoi(os.Args[4])
		tr := genRun(p, seed, "quick", run)
		b, _ := json.MarshalIndent(tr, "", " ")
		fmt.Println(string(b))
	case "eventlog":
		if len(os.Args) < 6 {
			usage()
		}
		os.Exit(eventlogMain(os.Args[2:]))
	default:
		usage()
	}
}

func genRun(p Prop, batch uint64, tier string, run int) *Trace {
	rs := runSeed(batch, p.ID(), run)
	tr := p.Gen(NewRng(rs), tier, run)
	tr.Prop = p.ID()
	tr.Seed = rs
	tr.Run = run
	return tr
}

// execTrace runs a trace in this process; a harness panic (a malformed
// candidate produced while minimising) is reported as an error.
func execTrace(tr *Trace, p Prop, mode int) (x *Exec, err error) {
	defer func() {
		if r := recover(); r != nil {
			err = fmt.Errorf("harness panic: %v", r)
		}
	}()
	x = newExec(tr, p, mode)
	x.Run()
	return x, nil
}

func replayMain(path string) int {
	tr, err := readTrace(path)
	if err != nil {
		fmt.Fprintln(os.Stderr, "replay:", err)
		return 2
	}
	p := registry[tr.Prop]
	if p == nil {
		fmt.Fprintln(os.Stderr, "replay: unknown property", tr.Prop)
		return 2
	}
	if os.Getenv("VERIF_IGNORE_KNOWN") != "" {
		ignoreKnown = true
	}
	if (strings.Contains(tr.Sig, ":fatal:") || strings.Contains(tr.Sig, ":hang:")) && os.Getenv("VERIF_REPLAY_CHILD") == "" {
		// a trace that kills the process is replayed in a child
		self, _ := os.Executable()
		cmd := exec.Command(self, "replay", path)
		cmd.Env = append(os.Environ(), "VERIF_REPLAY_CHILD=1")
		out, _ := cmd.CombinedOutput()
		code := cmd.ProcessState.ExitCode()
		fatal := strings.Contains(string(out), "fatal error:")
		hang := code == 3
		if (strings.Contains(tr.Sig, ":fatal:") && fatal) || (strings.Contains(tr.Sig, ":hang:") && hang) {
			fmt.Printf("replay: the process died as recorded (%s)\n%s\n", tr.Sig, tail(string(out), 1200))
			fmt.Printf("VIOLATION property=%s replay=%s\n", tr.Prop, path)
			return 1
		}
		fmt.Print(string(out))
		return code
	}
	startWatchdog(hangLimit())
	busy.Store(true)
	curRunInfo.Store("replay " + path)
	mode := modeReplay
	if len(tr.Sched) == 0 {
		mode = modeFresh // a from-seed trace: the schedule is re-derived from the run seed
	}
	x, err := execTrace(tr, p, mode)
	if err != nil {
		fmt.Fprintln(os.Stderr, "replay:", err)
		return 2
	}
	if x.diverged != "" {
		fmt.Fprintln(os.Stderr, "replay: trace diverged:", x.diverged)
		return 2
	}
	for _, k := range sortedKeys(x.stats.KnownSeen) {
		fmt.Printf("KNOWN-FINDING: property=%s %s (x%d) %s\n", tr.Prop, k, x.stats.KnownSeen[k], x.knownMsg[k])
	}
	if len(x.viols) == 0 {
		fmt.Println("replay: no violation")
		return 0
	}
	for _, v := range x.viols {
		fmt.Printf("replay: violation %s at step %d: %s\n", v.Sig, v.Step, v.Msg)
	}
	if tr.Sig != "" {
		for _, v := range x.viols {
			if v.Sig == tr.Sig {
				fmt.Printf("VIOLATION property=%s replay=%s\n", tr.Prop, path)
				return 1
			}
		}
		fmt.Fprintf(os.Stderr, "replay: expected signature %s not reproduced\n", tr.Sig)
		return 4
	}
	fmt.Printf("VIOLATION property=%s replay=%s\n", tr.Prop, path)
	return 1
}

func replayDir() string {
	d := filepath.Join(verifRoot, "replays")
	_ = os.MkdirAll(d, 0o755)
	return d
}
