package main

import "sort"

// Delta-debugging minimiser: shrink programs, values, fault plan, knobs and
// the schedule while the same violation signature persists. Candidates run
// with the schedule as hints; the schedule actually executed is written
// back, so the final trace replays literally.

func hasSig(x *Exec, sig string) (Violation, bool) {
	for _, v := range x.viols {
		if v.Sig == sig {
			return v, true
		}
	}
	return Violation{}, false
}

func minimise(tr *Trace, p Prop, v Violation) (*Trace, Violation) {
	best := tr.clone()
	bestV := v
	budget := 600
	try := func(c *Trace) bool {
		if budget <= 0 {
			return false
		}
		budget--
		x, err := execTrace(c, p, modeHints)
		if err != nil || x == nil || x.diverged != "" {
			return false
		}
		if nv, ok := hasSig(x, v.Sig); ok {
			c.Sched = append([]int(nil), x.sched...)
			best = c
			bestV = nv
			return true
		}
		return false
	}
	for pass := 0; pass < 6; pass++ {
		progress := false
		// drop whole tasks (keep at least one)
		for i := len(best.Tasks) - 1; i >= 0 && len(best.Tasks) > 1; i-- {
			c := best.clone()
			c.Tasks = append(c.Tasks[:i:i], c.Tasks[i+1:]...)
			var s []int
			for _, t := range c.Sched {
				switch {
				case t == i:
				case t > i:
					s = append(s, t-1)
				default:
					s = append(s, t)
				}
			}
			c.Sched = s
			if try(c) {
				progress = true
			}
		}
		// drop single ops, last first
		for ti := len(best.Tasks) - 1; ti >= 0; ti-- {
			for oi := len(best.Tasks[ti]) - 1; oi >= 0; oi-- {
				if ti >= len(best.Tasks) || oi >= len(best.Tasks[ti]) {
					continue
				}
				c := best.clone()
				c.Tasks[ti] = append(c.Tasks[ti][:oi:oi], c.Tasks[ti][oi+1:]...)
				if try(c) {
					progress = true
				}
			}
		}
		for oi := len(best.Setup) - 1; oi >= 0; oi-- {
			if oi >= len(best.Setup) {
				continue
			}
			c := best.clone()
			c.Setup = append(c.Setup[:oi:oi], c.Setup[oi+1:]...)
			if try(c) {
				progress = true
			}
		}
		// shrink argument lists of variadic calls and simplify integers
		shrinkOps := func(get func(c *Trace) []Op) {
			for oi := 0; oi < len(get(best)); oi++ {
				op := get(best)[oi]
				if len(op.Args) > 1 && (op.M == "Push" || op.M == "SetLogLevel" || op.M == "UnsetLogLevel" || op.M == "SetEncap") {
					for ai := len(op.Args) - 1; ai >= 0 && len(get(best)[oi].Args) > 1; ai-- {
						c := best.clone()
						o := &get(c)[oi]
						if ai >= len(o.Args) {
							continue
						}
						o.Args = append(o.Args[:ai:ai], o.Args[ai+1:]...)
						if try(c) {
							progress = true
						}
					}
				}
				for ai := range get(best)[oi].Args {
					a := get(best)[oi].Args[ai]
					if a.K == "i" && a.I != 0 {
						for _, nv := range []int64{0, a.I / 2, a.I - sign(a.I)} {
							if nv == a.I {
								continue
							}
							c := best.clone()
							get(c)[oi].Args[ai].I = nv
							if try(c) {
								progress = true
								break
							}
						}
					}
				}
			}
		}
		shrinkOps(func(c *Trace) []Op { return c.Setup })
		for ti := range best.Tasks {
			ti := ti
			if ti < len(best.Tasks) {
				shrinkOps(func(c *Trace) []Op {
					if ti < len(c.Tasks) {
						return c.Tasks[ti]
					}
					return nil
				})
			}
		}
		// knobs off, fault plan smaller
		if best.Knobs.CfgYield != 0 {
			c := best.clone()
			c.Knobs.CfgYield = 0
			if try(c) {
				progress = true
			}
		}
		if best.Knobs.PolicyYield {
			c := best.clone()
			c.Knobs.PolicyYield = false
			if try(c) {
				progress = true
			}
		}
		var cks []string
		for k := range best.Closures { // order-free: sorted below
			cks = append(cks, k)
		}
		sort.Strings(cks)
		for _, k := range cks {
			c := best.clone()
			delete(c.Closures, k)
			if try(c) {
				progress = true
			}
		}
		// world: drop trailing objects nothing refers to
		for len(best.Objs) > 1 {
			last := len(best.Objs) - 1
			if refersTo(best, last) {
				break
			}
			c := best.clone()
			c.Objs = c.Objs[:last]
			if !try(c) {
				break
			}
			progress = true
		}
		if best.Objs[0].Cap != 0 {
			c := best.clone()
			c.Objs[0].Cap = 0
			if try(c) {
				progress = true
			}
		}
		// schedule: remove context switches
		if !best.Seq {
			for i := 1; i < len(best.Sched); i++ {
				if best.Sched[i] != best.Sched[i-1] {
					c := best.clone()
					c.Sched[i] = c.Sched[i-1]
					if try(c) {
						progress = true
					}
				}
			}
		}
		if !progress || budget <= 0 {
			break
		}
	}
	return best, bestV
}

func sign(i int64) int64 {
	if i < 0 {
		return -1
	}
	return 1
}

func refersTo(tr *Trace, obj int) bool {
	var inVal func(v Val) bool
	inVal = func(v Val) bool {
		if v.K == "ref" && int(v.I) == obj {
			return true
		}
		for _, e := range v.L {
			if inVal(e) {
				return true
			}
		}
		return false
	}
	inOps := func(ops []Op) bool {
		for _, o := range ops {
			if o.Obj == obj {
				return true
			}
			for _, a := range o.Args {
				if inVal(a) {
					return true
				}
			}
		}
		return false
	}
	if inOps(tr.Setup) {
		return true
	}
	for _, p := range tr.Tasks {
		if inOps(p) {
			return true
		}
	}
	for _, s := range tr.Objs {
		for _, v := range []*Val{s.Kw, s.Op, s.Ex} {
			if v != nil && inVal(*v) {
				return true
			}
		}
	}
	return false
}
