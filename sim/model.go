package main

// The reference model: plain Go, no reflection, no code shared with the
// library. Written from the property statements and the exported
// documentation. Unspecified corners are expressed as alternatives (any of
// which the implementation may take) or as "*" wildcards in results.

import (
	"sort"
	"strconv"
	"strings"
)

type MElem struct {
	D       string // canonical description (identity for world objects)
	Nil     bool
	IsStack bool // a live Stack or Stack alias (in any dress)
	IsCond  bool
}

type MStack struct {
	Live  bool // initialised
	Kind  string
	Fifo  bool
	Cap   int // 0 = none
	Opt   map[string]bool
	ID    string
	Cat   string
	Delim string
	Sym   string
	Enc   [][]string
	Log   uint16
	Aux   string // description of the auxiliary map
	Err   string // "nil", "err", "err#name", "*" (unspecified)
	Mutex bool
	Pol   map[string]int // installed closure slot per kind (absent = none)
	Elems []MElem
	Freed bool
}

type MCond struct {
	Live  bool
	Kw    string
	Op    string // description or "nil"
	OpOK  bool   // operator present
	OpBad bool   // built-in operator outside the six
	OpTxt string // rendering text
	Ex    MElem
	ExSet bool
	ExTxt string // rendering of the expression ("*" if not predictable)
	Opt   map[string]bool
	Enc   [][]string
	ID    string
	Cat   string
	Err   string
	Log   uint16
	Aux   string
	Pol   map[string]int
}

type MWorld struct {
	S     []*MStack
	C     []*MCond
	Clos  map[string]ClosureSpec // shared, immutable
	Ncons map[string]int         // consultations so far, per closure slot
}

// verdict predicts the answer of harness closure kind+slot to its next
// consultation (and counts it).
func (w *MWorld) verdict(kind string, slot int, val string) bool {
	key := kind + strconv.Itoa(slot)
	n := w.Ncons[key]
	w.Ncons[key] = n + 1
	spec := w.Clos[key]
	if spec.Always {
		return true
	}
	for _, k := range spec.RejectAt {
		if k == n {
			return true
		}
	}
	for _, v := range spec.RejectVals {
		if v == val {
			return true
		}
	}
	return false
}

func (m *MStack) clone() *MStack {
	if m == nil {
		return nil
	}
	c := *m
	c.Opt = map[string]bool{}
	for k, v := range m.Opt {
		c.Opt[k] = v
	}
	c.Pol = map[string]int{}
	for k, v := range m.Pol {
		c.Pol[k] = v
	}
	c.Enc = append([][]string(nil), m.Enc...)
	c.Elems = append([]MElem(nil), m.Elems...)
	return &c
}

func (m *MCond) clone() *MCond {
	if m == nil {
		return nil
	}
	c := *m
	c.Opt = map[string]bool{}
	for k, v := range m.Opt {
		c.Opt[k] = v
	}
	c.Pol = map[string]int{}
	for k, v := range m.Pol {
		c.Pol[k] = v
	}
	c.Enc = append([][]string(nil), m.Enc...)
	return &c
}

func (w *MWorld) clone() *MWorld {
	n := &MWorld{S: make([]*MStack, len(w.S)), C: make([]*MCond, len(w.C)), Clos: w.Clos, Ncons: map[string]int{}}
	for k, v := range w.Ncons {
		n.Ncons[k] = v
	}
	for i := range w.S {
		n.S[i] = w.S[i].clone()
	}
	for i := range w.C {
		n.C[i] = w.C[i].clone()
	}
	return n
}

func (m *MStack) key() string {
	var b strings.Builder
	b.WriteString(m.Kind)
	if m.Fifo {
		b.WriteString(" fifo")
	}
	b.WriteString(" cap" + strconv.Itoa(m.Cap))
	ks := make([]string, 0, len(m.Opt))
	for k, v := range m.Opt {
		if v {
			ks = append(ks, k)
		}
	}
	sort.Strings(ks)
	b.WriteString(" [" + strings.Join(ks, ",") + "]")
	for _, e := range m.Elems {
		b.WriteString(" " + e.D)
	}
	return b.String()
}

func newMStack(spec ObjSpec) *MStack {
	m := &MStack{Live: spec.T == "S", Kind: spec.Kind, Opt: map[string]bool{}, Pol: map[string]int{}, Err: "nil", Aux: "aux(nil)"}
	if spec.Cap > 0 {
		m.Cap = spec.Cap
	}
	return m
}

func (m *MStack) full() bool { return m.Cap > 0 && len(m.Elems) >= m.Cap }

// resolve translates a user index under the negative / forward options.
func (m *MStack) resolve(i int) (pos int, ok bool) {
	L := len(m.Elems)
	if L == 0 {
		return 0, false
	}
	switch {
	case i < 0:
		if m.Opt["negidx"] && i >= -L {
			return L + i, true
		}
	case i > L-1:
		if m.Opt["fwdidx"] {
			return L - 1, true
		}
	default:
		return i, true
	}
	return 0, false
}

// Alt is one admissible behaviour of a call.
type Alt struct {
	Rets     []string // expected results; "*" matches anything
	W        *MWorld
	Consults []string // expected consultations of harness closures: "push<slot> <args> -> <verdict>"
}

const wild = "*"

func boolS(b bool) string { return strconv.FormatBool(b) }

var optOf = map[string]string{
	"SetParen": "paren", "Paren": "paren",
	"SetFold": "fold", "Fold": "fold",
	"SetNoPadding": "nopad", "NoPadding": "nopad",
	"SetLeadOnce": "lonce", "LeadOnce": "lonce",
	"SetNegativeIndices": "negidx", "NegativeIndices": "negidx",
	"SetForwardIndices": "fwdidx", "ForwardIndices": "fwdidx",
	"SetNoNesting": "nnest", "NoNesting": "nnest",
	"SetReadOnly": "ronly", "ReadOnly": "ronly",
}

var logNames = map[string]uint16{
	"NONE": 0, "CALLS": 1, "POLICY": 2, "STATE": 4, "DEBUG": 8, "ERROR": 16, "TRACE": 32,
	"USER1": 64, "USER2": 128, "USER3": 256, "USER4": 512, "USER5": 1024, "USER6": 2048,
	"USER7": 4096, "USER8": 8192, "USER9": 16384, "USER10": 32768, "ALL": 65535,
}

// ElemOf describes a Val for the model; supplied by the harness (it needs
// the world to name objects).
type ElemFn func(Val) MElem

// applyStack applies op to stack object op.Obj of world w and returns the
// admissible behaviours. self is the description of the receiver handle
// (fluent methods return it).
func (w *MWorld) applyStack(op Op, self string, el ElemFn) []Alt {
	one := func(n *MWorld, rets ...string) []Alt { return []Alt{{Rets: rets, W: n}} }
	m0 := w.S[op.Obj]
	if m0 == nil {
		return nil
	}
	n := w.clone()
	m := n.S[op.Obj]
	ro := m.Opt["ronly"]
	argI := func(k int) int {
		if k < len(op.Args) {
			return int(op.Args[k].I)
		}
		return 0
	}
	if !m.Live {
		return nil // dead receivers are the business of the inertness oracle
	}

	if o, ok := optOf[op.M]; ok {
		if !ro || o == "ronly" {
			switch {
			case len(op.Args) == 0:
				m.Opt[o] = !m.Opt[o]
			default:
				m.Opt[o] = op.Args[0].I != 0
			}
		}
		return one(n, self)
	}

	switch op.M {
	case "Push":
		if ro {
			return one(n, self)
		}
		var cons []string
		if slot, ok := m.Pol["push"]; ok {
			for _, a := range op.Args {
				if m.full() {
					continue
				}
				e := el(a)
				key := "push" + strconv.Itoa(slot)
				reject := n.verdict("push", slot, e.D)
				verdict := "nil"
				if reject {
					verdict = "err#" + key + "-reject"
				}
				cons = append(cons, key+" ["+e.D+"] -> "+verdict)
				if reject {
					m.Err = verdict
					break
				}
				m.Elems = append(m.Elems, e)
			}
			return []Alt{{Rets: []string{self}, W: n, Consults: cons}}
		}
		for _, a := range op.Args {
			e := el(a)
			if m.Opt["nnest"] && e.IsStack {
				continue
			}
			if m.full() {
				continue
			}
			m.Elems = append(m.Elems, e)
		}
		return one(n, self)

	case "Pop":
		if ro || len(m.Elems) == 0 {
			return one(n, "nil", "false")
		}
		var e MElem
		if m.Fifo {
			e = m.Elems[0]
			m.Elems = m.Elems[1:]
		} else {
			e = m.Elems[len(m.Elems)-1]
			m.Elems = m.Elems[:len(m.Elems)-1]
		}
		if e.Nil {
			return one(n, "nil", wild)
		}
		return one(n, e.D, "true")

	case "Insert":
		if len(op.Args) < 2 {
			return nil
		}
		e := el(op.Args[0])
		if e.Nil || ro || m.full() {
			return one(n, "false")
		}
		p := argI(1)
		if p < 0 {
			p = 0
		}
		if p > len(m.Elems) {
			p = len(m.Elems)
		}
		ins := func(mm *MStack) {
			mm.Elems = append(mm.Elems, MElem{})
			copy(mm.Elems[p+1:], mm.Elems[p:])
			mm.Elems[p] = e
		}
		if m.Opt["nnest"] && e.IsStack {
			// unspecified: Insert of a Stack while no-nesting is set
			refused := w.clone()
			ins(m)
			return []Alt{{Rets: []string{"true"}, W: n}, {Rets: []string{"false"}, W: refused}}
		}
		ins(m)
		return one(n, "true")

	case "Remove":
		if ro {
			return one(n, "nil", "false")
		}
		p, ok := m.resolve(argI(0))
		if !ok {
			return one(n, "nil", "false")
		}
		e := m.Elems[p]
		if e.Nil {
			// unspecified: a nil slot may be refused or removed
			refused := w.clone()
			m.Elems = append(m.Elems[:p:p], m.Elems[p+1:]...)
			return []Alt{{Rets: []string{"nil", "false"}, W: refused}, {Rets: []string{"nil", wild}, W: n}}
		}
		m.Elems = append(m.Elems[:p:p], m.Elems[p+1:]...)
		return one(n, e.D, "true")

	case "Replace":
		if len(op.Args) < 2 {
			return nil
		}
		e := el(op.Args[0])
		if e.Nil || ro {
			return one(n, "false")
		}
		i := argI(1)
		if i >= 0 && i < len(m.Elems) {
			m.Elems[i] = e
			return one(n, "true")
		}
		alts := one(w.clone(), "false")
		if p, ok := m.resolve(i); ok {
			// unspecified: whether Replace honours the index options
			m.Elems[p] = e
			alts = append(alts, Alt{Rets: []string{"true"}, W: n})
		}
		return alts

	case "Swap":
		if ro {
			return one(n)
		}
		i, j := argI(0), argI(1)
		L := len(m.Elems)
		if i >= 0 && i < L && j >= 0 && j < L {
			m.Elems[i], m.Elems[j] = m.Elems[j], m.Elems[i]
			return one(n)
		}
		alts := one(w.clone())
		pi, oki := m.resolve(i)
		pj, okj := m.resolve(j)
		if oki && okj && (m.Opt["negidx"] || m.Opt["fwdidx"]) {
			m.Elems[pi], m.Elems[pj] = m.Elems[pj], m.Elems[pi]
			alts = append(alts, Alt{W: n})
		}
		return alts

	case "Reverse":
		if !ro {
			for i, j := 0, len(m.Elems)-1; i < j; i, j = i+1, j-1 {
				m.Elems[i], m.Elems[j] = m.Elems[j], m.Elems[i]
			}
		}
		return one(n, self)

	case "Reset":
		if !ro {
			m.Elems = nil
		}
		return one(n)

	case "SetFIFO":
		if !ro && !m.Fifo && len(op.Args) > 0 {
			m.Fifo = op.Args[0].I != 0
		}
		return one(n, self)

	case "SetMutex", "Mutex":
		if !ro {
			m.Mutex = true
		}
		return one(n, self)

	case "SetID":
		if !ro && len(op.Args) > 0 {
			m.ID = op.Args[0].S
		}
		return one(n, self)

	case "SetCategory":
		if !ro && len(op.Args) > 0 {
			m.Cat = op.Args[0].S
		}
		return one(n, self)

	case "SetErr":
		if len(op.Args) > 0 && op.Args[0].K == "err" && op.Args[0].S != "" {
			m.Err = "err#" + op.Args[0].S
		} else {
			m.Err = "nil"
		}
		return one(n, self)

	case "SetDelimiter":
		if !ro && m.Kind == "LIST" && len(op.Args) > 0 {
			a := op.Args[0]
			switch a.K {
			case "s":
				m.Delim = a.S
			case "rune":
				if a.I != 0 {
					m.Delim = string(rune(a.I))
				} else {
					m.Delim = ""
				}
			default:
				m.Delim = ""
			}
		}
		return one(n, self)

	case "SetSymbol", "Symbol":
		if !ro && m.Kind != "LIST" {
			s := ""
			for _, a := range op.Args {
				switch a.K {
				case "s":
					s += a.S
				case "rune":
					s += string(rune(a.I))
				}
			}
			m.Sym = s
		}
		return one(n, self)

	case "SetEncap", "Encap":
		if !ro {
			m.Enc = encapModel(m.Enc, op.Args)
		}
		return one(n, self)

	case "SetLogLevel":
		if !ro {
			m.Log = logShift(m.Log, op.Args)
		}
		return one(n, self)

	case "UnsetLogLevel":
		if !ro {
			m.Log = logUnshift(m.Log, op.Args)
		}
		return one(n, self)

	case "SetAuxiliary":
		if !ro {
			m.Aux = auxModel(op.Args)
		}
		return one(n, self)

	case "SetPushPolicy", "SetValidityPolicy", "SetPresentationPolicy", "SetEqualityPolicy", "SetUnmarshaler", "SetMarshaler", "SetLessFunc":
		kind := polKind[op.M]
		if !ro {
			if kind == "pres" && m.Kind == "BASIC" {
				// refused: an error is recorded and nothing is installed
				m.Err = "err"
				return one(n, self)
			}
			if len(op.Args) == 0 || op.Args[0].K == "nil" {
				delete(m.Pol, kind)
			} else {
				m.Pol[kind] = int(op.Args[0].I) % nSlots
			}
		}
		return one(n, self)

	case "Marshal":
		// an already initialised receiver gains the decoded Stack as one new
		// element (through Push, so read-only, capacity and no-nesting apply)
		if len(op.Args) == 0 {
			return one(n, "err")
		}
		if _, has := m.Pol["marshal"]; has {
			return nil
		}
		if _, has := m.Pol["push"]; has {
			return nil
		}
		if op.Args[0].K != "s" {
			return nil
		}
		if !ro && !m.Opt["nnest"] && !m.full() {
			m.Elems = append(m.Elems, MElem{D: wild, IsStack: true})
		}
		return one(n, "nil")

	case "Transfer":
		if len(op.Args) < 1 {
			return nil
		}
		a := op.Args[0]
		if a.K != "ref" || int(a.I) >= len(n.S) || n.S[a.I] == nil {
			return one(n, "false")
		}
		if int(a.I) == op.Obj {
			return nil // self-transfer: unspecified, never generated
		}
		d := n.S[a.I]
		if !d.Live || d.Opt["ronly"] {
			return one(n, "false")
		}
		if d.Cap > 0 && d.Cap-len(d.Elems) < len(m.Elems) {
			return one(n, "false")
		}
		if _, has := d.Pol["push"]; has {
			return nil // destination with a push policy: not generated
		}
		if d.Opt["nnest"] {
			skipped := false
			for _, e := range m.Elems {
				if e.IsStack {
					skipped = true
				}
			}
			if skipped {
				// not everything can arrive: Transfer must not report success;
				// whether the other elements are kept is unspecified
				unchanged := w.clone()
				for _, e := range m.Elems {
					if !e.IsStack {
						d.Elems = append(d.Elems, e)
					}
				}
				return []Alt{{Rets: []string{"false"}, W: n}, {Rets: []string{"false"}, W: unchanged}}
			}
		}
		d.Elems = append(d.Elems, m.Elems...)
		return one(n, "true")
	}
	return nil
}

// encapModel: a string or []string of one/two characters is appended as a
// pair unless one of its characters is already in use; no arguments clears.
func encapModel(enc [][]string, args []Val) [][]string {
	if len(args) == 0 {
		return [][]string{}
	}
	inUse := func(c string) bool {
		for _, p := range enc {
			for _, x := range p {
				if x == c {
					return true
				}
			}
		}
		return false
	}
	for _, a := range args {
		var pair []string
		switch a.K {
		case "s":
			pair = []string{a.S}
		case "strs":
			for _, e := range a.L {
				pair = append(pair, e.S)
			}
		default:
			continue
		}
		if len(pair) == 0 {
			continue
		}
		if len(pair) > 2 {
			return nil // unspecified: more than two characters, never generated
		}
		dup := false
		for _, c := range pair {
			if inUse(c) {
				dup = true
			}
		}
		if !dup {
			enc = append(enc[:len(enc):len(enc)], pair)
		}
	}
	return enc
}

func lvlOf(a Val) (uint16, bool) {
	switch a.K {
	case "s":
		v, ok := logNames[strings.ToUpper(a.S)]
		return v, ok
	case "lvl":
		return uint16(a.I), true
	case "i":
		if a.I >= 0 && a.I <= 65535 {
			return uint16(a.I), true
		}
	}
	return 0, false
}

// logShift: a bit-set with 'none' (clears, stops) and 'all' (sets all, stops).
func logShift(cur uint16, args []Val) uint16 {
	for _, a := range args {
		v, ok := lvlOf(a)
		if !ok {
			continue
		}
		if v == 0 {
			return 0
		}
		if v == 65535 {
			return 65535
		}
		cur |= v
	}
	return cur
}

func logUnshift(cur uint16, args []Val) uint16 {
	for _, a := range args {
		v, ok := lvlOf(a)
		if !ok || v == 0 {
			continue
		}
		if v == 65535 {
			return cur // unspecified: UnsetLogLevel(all); never generated
		}
		cur &^= v
	}
	return cur
}

var logOrder = []string{"CALLS", "POLICY", "STATE", "DEBUG", "ERROR", "TRACE", "USER1", "USER2", "USER3", "USER4", "USER5", "USER6", "USER7", "USER8", "USER9", "USER10"}

func logString(v uint16) string {
	if v == 0 {
		return "NONE"
	}
	if v == 65535 {
		return "ALL"
	}
	var p []string
	for i, n := range logOrder {
		if v&(1<<uint(i)) != 0 {
			p = append(p, n)
		}
	}
	return strings.Join(p, ",")
}

// auxModel: SetAuxiliary installs the given map; none or nil installs a
// fresh empty one.
func auxModel(args []Val) string {
	if len(args) == 0 || args[0].K != "aux" {
		return "aux#?{}"
	}
	k := strconv.FormatInt(args[0].I, 10)
	return "aux#" + k + "{k" + k + "=" + k + "}"
}

var polKind = map[string]string{
	"SetPushPolicy": "push", "SetValidityPolicy": "valid", "SetPresentationPolicy": "pres", "SetEqualityPolicy": "equal",
	"SetUnmarshaler": "unmarshal", "SetMarshaler": "marshal", "SetLessFunc": "less", "SetEvaluator": "eval",
}
