package main

import (
	"fmt"
	stackage "github.com/JesseCoretta/go-stackage"
	"strconv"
	"strings"
)

// Condition side of the reference model (C06, C13, C18, C09).

func newMCond(spec ObjSpec, el ElemFn) *MCond {
	m := &MCond{Opt: map[string]bool{}, Pol: map[string]int{}, Err: "nil", Op: "nil", Aux: "aux(nil)"}
	switch spec.T {
	case "ZC":
		return m
	case "IC":
		m.Live = true
		return m
	}
	m.Live = true
	if spec.Kw != nil {
		m.setKw(*spec.Kw)
	}
	if spec.Op != nil {
		m.setOp(*spec.Op)
	}
	if spec.Ex != nil && el != nil {
		m.setEx(*spec.Ex, el)
	}
	if !m.valid() {
		m.Err = "err"
	}
	return m
}

func (m *MCond) setKw(v Val) {
	switch v.K {
	case "s":
		m.Kw = v.S
	case "nstr":
		// a named string type is not a string; with a String method it is a
		// stringer (consulted unless it is the zero value), without one it is refused
		if v.D == 1 && v.S != "" {
			m.Kw = "kw:" + v.S
		}
	case "strer":
		// a stringer is consulted unless its value is the zero value of its
		// type; whatever text it gives (the empty text included) is stored
		if v.S != "" || v.D == 1 {
			m.Kw = v.S
		}
	}
}

// flipNow mirrors World.flipText for the model (one world per process)
var flipNow = map[string]string{}

var opText = map[int64]string{1: "=", 2: "!=", 3: "<", 4: ">", 5: "<=", 6: ">="}

func (m *MCond) setOp(v Val) {
	switch v.K {
	case "op":
		// every built-in value has a non-empty text and context, so it is
		// accepted; Valid() is what reports the ones outside the six
		m.OpOK = true
		m.Op = "op" + strconv.FormatInt(v.I, 10)
		t, ok := opText[v.I]
		m.OpBad = !ok
		m.OpTxt = t
	case "fop":
		// accepted if its text is non-empty at the time it is offered
		if cur, ok := flipNow[v.S]; ok && cur == "" {
			return
		}
		m.OpOK = true
		m.OpBad = false
		m.Op = "fop(" + v.S + ")"
		m.OpTxt = "\x00" + v.S
	case "uop":
		ctx := "user"
		if v.D == 1 {
			ctx = ""
		}
		if v.S == "" || ctx == "" {
			return // rejected
		}
		m.OpOK = true
		m.OpBad = false
		m.Op = "uop(" + v.S + "," + ctx + ")"
		m.OpTxt = v.S
	}
}

func (m *MCond) setEx(v Val, el ElemFn) {
	if m.Err != "nil" {
		return // any expression offered while Err() is non-nil is refused
	}
	e := el(v)
	if e.Nil {
		return
	}
	if v.K == "s" && v.S == "" {
		return
	}
	if e.IsStack && m.Opt["nnest"] {
		return
	}
	m.Ex = e
	m.ExSet = true
	m.ExTxt = exText(v)
}

// exText is the rendering of a primitive / stringer expression; "" means
// "ask the referenced object" (compositional), "*" means not predictable.
func exText(v Val) string {
	switch v.K {
	case "s", "strer":
		return v.S
	case "i":
		return strconv.FormatInt(v.I, 10)
	case "b":
		return strconv.FormatBool(v.I != 0)
	case "f":
		return strconv.FormatFloat(float64(v.I)/4, 'g', -1, 64)
	case "rune":
		return strconv.FormatInt(v.I, 10)
	case "ref":
		switch v.D % nDress {
		case dNative, dAliasStr, dPtrNative:
			return ""
		}
	}
	return wild
}

func (m *MCond) valid() bool {
	return m.Kw != "" && m.OpOK && !m.OpBad && m.ExSet
}

// WorldText lets the model ask for the real rendering of a referenced
// world object (compositional rendering of nested expressions).
type WorldText interface {
	textOf(desc string) (string, bool)
}

func (w *MWorld) applyCond(op Op, self string, el ElemFn, wt WorldText) []Alt {
	one := func(n *MWorld, rets ...string) []Alt { return []Alt{{Rets: rets, W: n}} }
	if w.C[op.Obj] == nil {
		return nil
	}
	n := w.clone()
	m := n.C[op.Obj]
	if op.M == "Init" {
		// (re-)initialise: everything is forgotten
		fresh := newMCond(ObjSpec{T: "IC"}, nil)
		n.C[op.Obj] = fresh
		return one(n, wild)
	}
	if !m.Live {
		return nil
	}
	ro := m.Opt["ronly"]
	if o, ok := optOf[op.M]; ok {
		switch o {
		case "paren", "nopad", "nnest", "ronly":
			if !ro || o == "ronly" {
				if len(op.Args) == 0 {
					m.Opt[o] = !m.Opt[o]
				} else {
					m.Opt[o] = op.Args[0].I != 0
				}
			}
			return one(n, self)
		}
		return nil
	}
	switch op.M {
	case "SetKeyword":
		if !ro && len(op.Args) > 0 {
			m.setKw(op.Args[0])
		}
		return one(n, self)
	case "SetOperator":
		if !ro && len(op.Args) > 0 {
			m.setOp(op.Args[0])
		}
		return one(n, self)
	case "SetExpression":
		if !ro && len(op.Args) > 0 {
			m.setEx(op.Args[0], el)
		}
		return one(n, self)
	case "SetErr":
		if len(op.Args) > 0 && op.Args[0].K == "err" && op.Args[0].S != "" {
			m.Err = "err#" + op.Args[0].S
		} else {
			m.Err = "nil"
		}
		return one(n, self)
	case "SetEncap", "Encap":
		if !ro {
			m.Enc = encapModel(m.Enc, op.Args)
		}
		return one(n, self)
	case "SetID":
		if !ro && len(op.Args) > 0 {
			m.ID = op.Args[0].S
		}
		return one(n, self)
	case "SetCategory":
		if !ro && len(op.Args) > 0 {
			m.Cat = op.Args[0].S
		}
		return one(n, self)
	case "SetAuxiliary":
		if !ro {
			m.Aux = auxModel(op.Args)
		}
		return one(n, self)
	case "SetValidityPolicy", "SetPresentationPolicy", "SetEqualityPolicy", "SetUnmarshaler", "SetEvaluator":
		kind := polKind[op.M]
		if !ro {
			if len(op.Args) == 0 || op.Args[0].K == "nil" {
				delete(m.Pol, kind)
			} else {
				m.Pol[kind] = int(op.Args[0].I) % nSlots
			}
		}
		return one(n, self)
	case "SetLogLevel":
		if !ro {
			m.Log = logShift(m.Log, op.Args)
		}
		return one(n, self)
	case "UnsetLogLevel":
		if !ro {
			m.Log = logUnshift(m.Log, op.Args)
		}
		return one(n, self)
	}
	return nil
}

// cmpCond compares the real condition i with the model.
func cmpCond(x *Exec, i int, m *MCond, k histKeys) string {
	w := x.w
	c := w.objs[i].keepC
	if h := *w.objs[i].C; !h.IsZero() {
		c = h
	}
	if g := c.Keyword(); g != m.Kw {
		return fmt.Sprintf("Keyword()=%q, most recently accepted %q", g, m.Kw)
	}
	gop := "nil"
	if o := c.Operator(); o != nil {
		gop = w.describe(o)
	}
	if gop != m.Op {
		return fmt.Sprintf("Operator()=%s, most recently accepted %s", gop, m.Op)
	}
	wex := "nil"
	if m.ExSet {
		wex = m.Ex.D
	}
	if g := w.describe(c.Expression()); g != wex {
		return fmt.Sprintf("Expression()=%s, most recently accepted %s", g, wex)
	}
	if _, has := m.Pol["valid"]; !has && k.condFull {
		err := c.Valid()
		if (err == nil) != m.valid() {
			return fmt.Sprintf("Valid()=%v but keyword %q, operator %s, expression %s", err, m.Kw, m.Op, wex)
		}
		if _, pres := m.Pol["pres"]; !pres {
			s := c.String()
			if (s == "") != !m.valid() {
				return fmt.Sprintf("String()=%q while Valid()=%v", s, err)
			}
			if m.valid() {
				if want, ok := m.render(w); ok && s != want {
					return fmt.Sprintf("String()=%q, expected %q", s, want)
				}
			}
		}
	}
	if m.Err != wild && k.condFull {
		g := w.describe(c.Err())
		if m.Err == "err" {
			if g == "nil" {
				return "Err()=nil, an error was recorded"
			}
		} else if g != m.Err {
			return fmt.Sprintf("Err()=%s, expected %s", g, m.Err)
		}
	}
	if k.nest || k.condFull {
		if g := c.CanNest(); g != !m.Opt["nnest"] {
			return fmt.Sprintf("CanNest()=%v while no-nesting is %v", g, m.Opt["nnest"])
		}
		if g := c.IsNesting(); g != (m.ExSet && m.Ex.IsStack) {
			return fmt.Sprintf("IsNesting()=%v, expression is a stack: %v", g, m.ExSet && m.Ex.IsStack)
		}
	}
	if !k.opts && !k.condFull {
		return ""
	}
	if g := c.IsParen(); g != m.Opt["paren"] {
		return fmt.Sprintf("IsParen()=%v, expected %v", g, m.Opt["paren"])
	}
	if g := c.IsPadded(); g != !m.Opt["nopad"] {
		return fmt.Sprintf("IsPadded()=%v, expected %v", g, !m.Opt["nopad"])
	}
	if g := c.IsReadOnly(); g != m.Opt["ronly"] {
		return fmt.Sprintf("IsReadOnly()=%v, expected %v", g, m.Opt["ronly"])
	}
	if g := c.IsEncap(); g != (len(m.Enc) > 0) {
		return fmt.Sprintf("IsEncap()=%v with %d pairs", g, len(m.Enc))
	}
	if g := c.ID(); g != m.ID {
		return fmt.Sprintf("ID()=%q, expected %q", g, m.ID)
	}
	if g := c.Category(); g != m.Cat {
		return fmt.Sprintf("Category()=%q, expected %q", g, m.Cat)
	}
	if g := c.LogLevels(); g != logString(m.Log) {
		return fmt.Sprintf("LogLevels()=%q, expected %q", g, logString(m.Log))
	}
	if g := w.describe(c.Auxiliary()); g != m.Aux && m.Aux != wild {
		return fmt.Sprintf("Auxiliary()=%s, expected %s", g, m.Aux)
	}
	if f := dumpField(w.renderState(stackage.VerifDump(c), 0), "enc"); f != "" {
		if want := encText(m.Enc); normEnc(f) != normEnc(want) {
			return fmt.Sprintf("encapsulation list is %s, expected %s", f, want)
		}
	}
	return ""
}

// render predicts String() of a valid condition: keyword, operator text
// and the encapsulated expression rendering separated by single blanks
// (none under no-padding), parenthesised iff requested.
func (m *MCond) render(w *World) (string, bool) {
	ex := m.ExTxt
	if ex == wild {
		return "", false
	}
	if ex == "" {
		// compositional: the referenced object's own rendering
		t, ok := w.textOf(m.Ex.D)
		if !ok {
			return "", false
		}
		ex = t
	}
	for i := len(m.Enc) - 1; i >= 0; i-- {
		p := m.Enc[i]
		switch len(p) {
		case 1:
			ex = p[0] + ex + p[0]
		case 2:
			ex = p[0] + ex + p[1]
		}
	}
	pad := " "
	if m.Opt["nopad"] {
		pad = ""
	}
	opTxt := m.OpTxt
	if strings.HasPrefix(opTxt, "\x00") {
		name := opTxt[1:]
		if t, ok := w.flipText[name]; ok {
			opTxt = t
		} else {
			opTxt = "~" + name
		}
	}
	s := m.Kw + pad + opTxt + pad + ex
	if m.Opt["paren"] {
		s = "(" + pad + s + pad + ")"
	}
	return s, true
}

// textOf returns the real String() of the world object a description names.
func (w *World) textOf(desc string) (string, bool) {
	name := desc
	if i := strings.Index(name, "/"); i >= 0 {
		name = name[:i]
	}
	for _, o := range w.objs {
		if o.name == name {
			if o.T == 'S' {
				return o.keep.String(), true
			}
			return o.keepC.String(), true
		}
	}
	return "", false
}
