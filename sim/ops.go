package main

import (
	"fmt"
	stackage "github.com/JesseCoretta/go-stackage"
	"reflect"
	"runtime"
	"strings"
)

// Op is one API call in a program: pure data.
type Op struct {
	Obj  int    `json:"obj"`
	M    string `json:"m"`
	Args []Val  `json:"args,omitempty"`
	Tag  string `json:"tag,omitempty"` // role in the program: "fence", "burst", "hostile", ...
}

func (o Op) String() string {
	var a []string
	for _, v := range o.Args {
		a = append(a, v.String())
	}
	return fmt.Sprintf("obj%d.%s(%s)", o.Obj, o.M, strings.Join(a, ","))
}

// Outcome of one call.
type Outcome struct {
	Ret      []string // canonical description of each result
	Raw      []any
	Panic    string // "" if the call returned normally
	NoMethod bool
}

func (o Outcome) String() string {
	if o.Panic != "" {
		return "PANIC(" + o.Panic + ")"
	}
	if o.NoMethod {
		return "NOMETHOD"
	}
	return "(" + strings.Join(o.Ret, ", ") + ")"
}

// invoke calls method op.M on world object op.Obj by reflection with
// materialised arguments and recovers a panic into the outcome.
func (w *World) invoke(op Op) (out Outcome) {
	var m reflect.Value
	if op.M == "world.setop" {
		// the history changes the text of a user-defined operator after the fact
		if len(op.Args) == 2 {
			w.flipText[op.Args[0].S] = op.Args[1].S
		}
		return
	}
	if strings.HasPrefix(op.M, "pkg.") {
		m = pkgFuncs[op.M]
	} else if strings.HasPrefix(op.M, "aux.") {
		m = reflect.ValueOf(stackage.Auxiliary(nil)).MethodByName(op.M[4:])
	} else {
		if op.Obj < 0 || op.Obj >= len(w.objs) {
			out.NoMethod = true
			return
		}
		m = w.objs[op.Obj].recv().MethodByName(op.M)
	}
	if !m.IsValid() {
		out.NoMethod = true
		return
	}
	mt := m.Type()
	var in []reflect.Value
	nin := mt.NumIn()
	for i, a := range op.Args {
		var pt reflect.Type
		if mt.IsVariadic() && i >= nin-1 {
			pt = mt.In(nin - 1).Elem()
		} else if i < nin {
			pt = mt.In(i)
		} else {
			break // surplus arguments are dropped
		}
		in = append(in, w.arg(a, pt))
	}
	// missing fixed arguments are zero values
	fixed := nin
	if mt.IsVariadic() {
		fixed = nin - 1
	}
	for len(in) < fixed {
		in = append(in, reflect.Zero(mt.In(len(in))))
	}
	defer func() {
		if r := recover(); r != nil {
			out.Panic = panicSite(r)
		}
		// Marshal / Init may have replaced the instance behind the handle
		if op.Obj >= 0 && op.Obj < len(w.objs) {
			w.register(op.Obj)
		}
	}()
	res := m.Call(in)
	for _, r := range res {
		var x any
		if r.IsValid() && r.CanInterface() {
			x = r.Interface()
		}
		out.Raw = append(out.Raw, x)
		d := w.describe(x)
		if op.M == "Addr" && strings.HasPrefix(d, "\"0x") {
			d = "\"<addr>\"" // pointer text: never logged, never compared
		}
		out.Ret = append(out.Ret, d)
	}
	return
}

// panicSite renders a recovered panic with the innermost library frame,
// without addresses.
func panicSite(r any) string {
	msg := fmt.Sprint(r)
	if e, ok := r.(error); ok {
		msg = e.Error()
	}
	// strip addresses from runtime error texts
	if i := strings.Index(msg, "[signal"); i >= 0 {
		msg = strings.TrimSpace(msg[:i])
	}
	if i := strings.Index(msg, "0x"); i >= 0 {
		msg = strings.TrimSpace(msg[:i])
	}
	pcs := make([]uintptr, 40)
	n := runtime.Callers(3, pcs)
	fr := runtime.CallersFrames(pcs[:n])
	site := ""
	for {
		f, more := fr.Next()
		if strings.Contains(f.Function, "go-stackage.") && !strings.Contains(f.Function, "verifPoint") {
			fn := f.Function[strings.LastIndex(f.Function, "go-stackage.")+len("go-stackage."):]
			site = fn
			break
		}
		if !more {
			break
		}
	}
	return msg + " @" + site
}

// methodsOf lists the exported method names of the handle types.
func methodsOf(kind byte) []string {
	var t reflect.Type
	if kind == 'S' {
		t = reflect.TypeOf(&stackHandleZero)
	} else {
		t = reflect.TypeOf(&condHandleZero)
	}
	var out []string
	for i := 0; i < t.NumMethod(); i++ {
		out = append(out, t.Method(i).Name)
	}
	return out
}

var stackHandleZero stackage.Stack
var condHandleZero stackage.Condition

var pkgFuncs = map[string]reflect.Value{
	"pkg.ConvertStack":     reflect.ValueOf(stackage.ConvertStack),
	"pkg.ConvertCondition": reflect.ValueOf(stackage.ConvertCondition),
	"pkg.Cond":             reflect.ValueOf(stackage.Cond),
}
