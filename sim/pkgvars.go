package main

import (
	"go/ast"
	"go/parser"
	"go/token"
	"os"
	"path/filepath"
	"sort"
	"strings"
)

// VerifDump covers instance state only. Go cannot enumerate package-level
// variables by reflection, so the driver lists them from the source of the
// tree under test and notes in the evidence any that are not in this
// baseline: state a query could write without any dump noticing (the one
// seeded change no check reaches, C11-4, is of this kind). A note, never
// a violation.
var pkgVarBaseline = map[string]bool{
	"typOf": true, "valOf": true, "printf": true, "sprintf": true, "eq": true, "lc": true, "ilc": true, "uc": true,
	"iuc": true, "rplc": true, "qt": true, "uq": true, "itoa": true, "split": true, "trimS": true, "join": true,
	"scmp": true, "now": true, "cfgFlagMap": true, "unexpectedReceiverState": true,
	"stdout": true, "stderr": true, "devNull": true, "sLogDefault": true, "cLogDefault": true,
	"sLogLevelDefault": true, "cLogLevelDefault": true, "logLevelNames": true, "logLevelMap": true,
	"VerifHook": true,
}

func newPackageVars(dir string) []string {
	files, _ := filepath.Glob(filepath.Join(dir, "*.go"))
	fset := token.NewFileSet()
	var out []string
	for _, f := range files {
		if strings.HasSuffix(f, "_test.go") {
			continue
		}
		src, err := os.ReadFile(f)
		if err != nil {
			continue
		}
		af, err := parser.ParseFile(fset, f, src, 0)
		if err != nil {
			continue
		}
		for _, d := range af.Decls {
			gd, ok := d.(*ast.GenDecl)
			if !ok || gd.Tok != token.VAR {
				continue
			}
			for _, sp := range gd.Specs {
				if vs, ok := sp.(*ast.ValueSpec); ok {
					for _, n := range vs.Names {
						if n.Name != "_" && !pkgVarBaseline[n.Name] {
							out = append(out, n.Name+" ("+filepath.Base(f)+")")
						}
					}
				}
			}
		}
	}
	sort.Strings(out)
	return out
}
