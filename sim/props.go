package main

import (
	"bufio"
	"encoding/json"
	"os"
	"path/filepath"
	"strings"
)

// Prop is one property's generator and oracle.
type Prop interface {
	ID() string
	Gen(r *Rng, tier string, run int) *Trace
	Begin(x *Exec)
	AfterSetup(x *Exec)
	AfterOp(x *Exec, task, idx int, op Op, out Outcome)
	AfterStep(x *Exec, t *task, ev event, pre []string, heldAtStart map[uintptr]bool)
	End(x *Exec)
	WantsStepDumps() bool
	Runs(tier string) int
	Rule() string
	Technique() string
}

type baseProp struct{}

func (baseProp) Begin(*Exec)                                               {}
func (baseProp) AfterSetup(*Exec)                                          {}
func (baseProp) AfterOp(*Exec, int, int, Op, Outcome)                      {}
func (baseProp) AfterStep(*Exec, *task, event, []string, map[uintptr]bool) {}
func (baseProp) End(*Exec)                                                 {}
func (baseProp) WantsStepDumps() bool                                      { return false }

var registry = map[string]Prop{}

func register(p Prop) { registry[p.ID()] = p }

// ---------------------------------------------------------------------
// known findings (committed file, never written at run time)

type Finding struct {
	Property  string `json:"property"`
	Signature string `json:"signature"`
	What      string `json:"what"`
	Status    string `json:"status"` // open | fixed
	Commit    string `json:"commit,omitempty"`
}

var knownOpen = map[string]Finding{}
var verifRoot = "/verif"

func loadFindings() {
	if r := os.Getenv("VERIF_ROOT"); r != "" {
		verifRoot = r
	}
	f, err := os.Open(filepath.Join(verifRoot, "known_findings.jsonl"))
	if err != nil {
		return
	}
	defer f.Close()
	sc := bufio.NewScanner(f)
	sc.Buffer(make([]byte, 1<<20), 1<<20)
	for sc.Scan() {
		line := strings.TrimSpace(sc.Text())
		if line == "" || strings.HasPrefix(line, "#") {
			continue
		}
		var fd Finding
		if json.Unmarshal([]byte(line), &fd) == nil && fd.Status == "open" {
			knownOpen[fd.Signature] = fd
		}
	}
}

func retsMatch(want, got []string) bool {
	if len(want) != len(got) {
		return false
	}
	for i := range want {
		if want[i] != wild && want[i] != got[i] {
			return false
		}
	}
	return true
}
