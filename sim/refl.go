package main

import (
	"reflect"
	"sort"
	"strings"
)

// The reflective alphabet: every exported method of *Stack and *Condition
// is enumerated by reflection, so that a method added later is under the
// read-only fence (C09), the dead-receiver burst (C17) and the query
// classification (C11) without anyone editing a list.

// declared queries: the names in the C11 statement, every Is.../Can...
// method (by pattern) and the plain getters of the Interface type.
var declaredQueries = map[string]bool{
	"String": true, "Index": true, "Front": true, "Back": true, "Traverse": true, "Len": true, "Cap": true,
	"Avail": true, "Kind": true, "Valid": true, "IsEqual": true, "Unmarshal": true, "Less": true,
	"ID": true, "Category": true, "Err": true, "Addr": true, "Logger": true, "Auxiliary": true, "Delimiter": true,
	"LogLevels": true, "Keyword": true, "Operator": true, "Expression": true, "Evaluate": true, "CapReached": true,
}

// declared mutators
var declaredMutators = map[string]bool{
	"Push": true, "Pop": true, "Insert": true, "Remove": true, "Replace": true, "Swap": true, "Reverse": true,
	"Reset": true, "Defrag": true, "Reveal": true, "Free": true, "Init": true, "Marshal": true, "Transfer": true,
	"UnsetLogLevel": true, "SetMutex": true, "Mutex": true,
	// deprecated aliases of option setters
	"Paren": true, "Fold": true, "NegativeIndices": true, "ForwardIndices": true, "LeadOnce": true, "NoPadding": true,
	"NoNesting": true, "ReadOnly": true, "Encap": true, "Symbol": true,
}

// classOf: "query", "mutator" or "unknown".
func classOf(m string) string {
	if declaredQueries[m] || strings.HasPrefix(m, "Is") || strings.HasPrefix(m, "Can") {
		return "query"
	}
	if declaredMutators[m] || strings.HasPrefix(m, "Set") {
		return "mutator"
	}
	return "unknown"
}

type methodInfo struct {
	Name string
	Type reflect.Type // method value type (receiver bound)
}

var methodCache = map[byte][]methodInfo{}

func methodsInfo(kind byte) []methodInfo {
	if m, ok := methodCache[kind]; ok {
		return m
	}
	var v reflect.Value
	if kind == 'S' {
		v = reflect.ValueOf(&stackHandleZero)
	} else {
		v = reflect.ValueOf(&condHandleZero)
	}
	t := v.Type()
	var out []methodInfo
	for i := 0; i < t.NumMethod(); i++ {
		out = append(out, methodInfo{Name: t.Method(i).Name, Type: v.Method(i).Type()})
	}
	sort.Slice(out, func(i, j int) bool { return out[i].Name < out[j].Name })
	methodCache[kind] = out
	return out
}

func methodsOfClass(kind byte, class string) []methodInfo {
	var out []methodInfo
	for _, m := range methodsInfo(kind) {
		if classOf(m.Name) == class {
			out = append(out, m)
		}
	}
	return out
}

// synthCtx tells the synthesiser what the world looks like.
type synthCtx struct {
	fenced  bool // the receiver is read-only for the whole burst
	sink    int  // an empty stack nothing refers to: the only safe Transfer destination / expression (no cycles)
	self    int
	stacks  []int // world indices of live stacks
	conds   []int
	lenHint int
	uniq    *int
}

func (c *synthCtx) uv(prefix string) Val {
	*c.uniq++
	return vStr(prefix + itoa(*c.uniq))
}

func (c *synthCtx) otherRef(r *Rng) Val {
	if c.sink > 0 && c.sink != c.self {
		return vRef(c.sink, r.Intn(nDress))
	}
	var pool []int
	for _, i := range c.stacks {
		if i != c.self {
			pool = append(pool, i)
		}
	}
	for _, i := range c.conds {
		if i != c.self {
			pool = append(pool, i)
		}
	}
	if len(pool) == 0 {
		return c.uv("v")
	}
	return vRef(pool[r.Intn(len(pool))], r.Intn(nDress))
}

// synthArgs draws arguments for method m; variant selects among the
// systematically different choices (true / false / toggle, slot 0 / 1 /
// nil, ...) so that consecutive variants are guaranteed to differ.
func synthArgs(r *Rng, m methodInfo, c *synthCtx, variant int) []Val {
	t := m.Type
	n := t.NumIn()
	// method-specific shapes first
	switch m.Name {
	case "SetID", "SetCategory":
		if c.fenced && m.Name == "SetID" && variant%3 == 1 {
			// on a read-only instance these must be refused like any other
			// (they are never used elsewhere: their effect is not deterministic)
			return []Val{vStr([]string{"_random", "_addr", "_RANDOM", "_Addr"}[r.Intn(4)])}
		}
		return []Val{c.uv("id")}
	case "SetKeyword":
		return []Val{c.uv("kw")}
	case "SetExpression":
		if variant%3 == 2 {
			return []Val{c.otherRef(r)}
		}
		return []Val{c.uv("ex")}
	case "SetOperator":
		return []Val{[]Val{vOp(1 + variant%6), {K: "uop", S: "~" + itoa(variant)}, vOp(2 + variant%5)}[variant%3]}
	case "SetLogLevel", "UnsetLogLevel":
		return []Val{[]Val{vStr("debug"), vLvl(4), vInt(96), vStr("user3"), vLvl(1), vLvl(0), vStr("none"), vInt(0), vStr("all"), vLvl(65535), vStr("trace")}[(variant+r.Intn(11))%11]}
	case "SetLogger":
		return []Val{[]Val{vStr("stdout"), vInt(2), {K: "logger"}, vStr("stderr")}[variant%4]}
	case "SetEncap", "Encap":
		if variant%4 == 3 {
			return nil // no argument: clears the list
		}
		ch := []string{"\"", "'", "<", "[", "`", "|", "#", "%"}
		return []Val{vStr(ch[(variant+r.Intn(4))%len(ch)])}
	case "SetDelimiter":
		return []Val{vStr([]string{",", ";", "|", "-"}[variant%4])}
	case "SetSymbol", "Symbol":
		if variant%4 == 3 {
			return nil // no argument: clears the symbol
		}
		return []Val{vStr([]string{"&", "||", "!", "+"}[variant%4])}
	case "SetFIFO":
		return []Val{vBool(true)}
	case "Push":
		return []Val{c.uv("v")}
	case "Insert":
		return []Val{c.uv("v"), vInt(r.Range(0, c.lenHint))}
	case "Replace":
		return []Val{c.uv("v"), vInt(r.Range(0, max0(c.lenHint-1)))}
	case "Remove", "Index":
		return []Val{vInt(r.Range(0, max0(c.lenHint-1)))}
	case "Swap", "Less":
		return []Val{vInt(r.Range(0, max0(c.lenHint-1))), vInt(r.Range(0, max0(c.lenHint-1)))}
	case "Traverse":
		var a []Val
		for k := r.Range(1, 3); k > 0; k-- {
			a = append(a, vInt(r.Range(0, 2)))
		}
		return a
	case "Defrag":
		if variant%2 == 0 {
			return nil
		}
		return []Val{vInt(r.Range(1, 60))}
	case "Transfer", "IsEqual":
		return []Val{c.otherRef(r)}
	case "Marshal":
		return []Val{vStr([]string{"LIST", "AND", "or"}[variant%3]), c.uv("m")}
	case "Evaluate":
		return []Val{c.uv("e")}
	case "SetErr":
		if variant%2 == 0 {
			return []Val{vErr("seterr" + itoa(variant))}
		}
		return []Val{vErr("")}
	}
	// generic, by parameter type
	var out []Val
	for i := 0; i < n; i++ {
		pt := t.In(i)
		variadic := t.IsVariadic() && i == n-1
		if variadic {
			pt = pt.Elem()
			if variant%3 == 2 {
				continue // no variadic argument: toggle / unset
			}
		}
		switch pt.Kind() {
		case reflect.Bool:
			out = append(out, vBool(variant%3 == 0))
		case reflect.Int:
			out = append(out, vInt(r.Range(0, 3)))
		case reflect.String:
			out = append(out, c.uv("s"))
		case reflect.Func:
			if !variadic && variant%3 == 2 {
				out = append(out, vNil())
			} else {
				out = append(out, vFn(variant%nSlots))
			}
		case reflect.Map:
			out = append(out, vAux(variant%2))
		case reflect.Interface:
			switch pt.String() {
			case "error":
				out = append(out, vErr("e"+itoa(variant)))
			case "stackage.Operator":
				out = append(out, vOp(1+variant%6))
			default:
				out = append(out, c.uv("a"))
			}
		default:
			out = append(out, vNil())
		}
	}
	return out
}

func max0(i int) int {
	if i < 0 {
		return 0
	}
	return i
}
