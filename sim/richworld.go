package main

// A "rich" world for the reflective engines: a small tree of stacks and
// conditions with random configuration, built by an ordinary seeded
// history so that backing arrays, FIFO reslices, capacities and option
// bits are in arbitrary reachable states.

type rich struct {
	stacks []int
	conds  []int
	sink   int
}

func buildRich(g *hgen) rich {
	r := g.r
	var w rich
	cap := 0
	if r.Bool(0.3) {
		cap = r.Range(4, 9)
	}
	s0 := g.addStack(g.kind(), cap)
	s1 := g.addStack(g.kind(), 0)
	s3 := g.addStack(g.kind(), 0)
	var ex Val = vStr("ex")
	if r.Bool(0.4) {
		ex = vRef(s3, r.PickInt(dNative, dNative, dAliasStr))
	}
	c2 := g.addCond("kw", r.Range(1, 6), ex)
	var c4 int
	if r.Bool(0.3) {
		// an incomplete condition: Init() plus some (or none) of the three parts
		g.tr.Objs = append(g.tr.Objs, ObjSpec{T: "IC"})
		g.m.S = append(g.m.S, nil)
		g.m.C = append(g.m.C, newMCond(ObjSpec{T: "IC"}, nil))
		c4 = len(g.tr.Objs) - 1
		if r.Bool(0.6) {
			g.emit(Op{Obj: c4, M: "SetKeyword", Args: []Val{vStr("kw4")}}, true)
		}
		if r.Bool(0.5) {
			g.emit(Op{Obj: c4, M: "SetOperator", Args: []Val{vOp(r.Range(1, 6))}}, true)
		}
	} else {
		c4 = g.addCond("kw4", r.Range(1, 6), vStr("four"))
	}
	w.stacks = []int{s0, s1, s3}
	w.conds = []int{c2, c4}
	w.sink = g.addStack(g.kind(), 0)
	// content
	hole := func(vs ...Val) []Val {
		if r.Bool(0.3) {
			k := r.Intn(len(vs) + 1)
			vs = append(vs[:k:k], append([]Val{vNil()}, vs[k:]...)...)
		}
		return vs
	}
	g.emit(Op{Obj: s3, M: "Push", Args: hole(g.uv(), g.uv())}, true)
	g.emit(Op{Obj: s1, M: "Push", Args: hole(g.uv(), vRef(c4, 0), g.plain())}, true)
	op := Op{Obj: s0, M: "Push"}
	for k := r.Range(1, 4); k > 0; k-- {
		switch r.Intn(5) {
		case 0:
			op.Args = append(op.Args, vRef(s1, r.PickInt(dNative, dAlias, dAliasStr, dPtrAlias)))
		case 1:
			op.Args = append(op.Args, vRef(c2, r.PickInt(dNative, dAlias, dAliasStr)))
		default:
			op.Args = append(op.Args, g.plain())
		}
	}
	g.emit(op, true)
	if r.Bool(0.3) {
		g.emit(Op{Obj: s0, M: "Pop"}, true)
		g.emit(Op{Obj: s0, M: "Push", Args: []Val{g.uv()}}, true)
	}
	// configuration
	for _, s := range w.stacks {
		for _, o := range []string{"SetParen", "SetFold", "SetNoPadding", "SetLeadOnce", "SetNegativeIndices", "SetForwardIndices"} {
			if r.Bool(0.25) {
				g.emit(Op{Obj: s, M: o, Args: []Val{vBool(true)}}, true)
			}
		}
		if r.Bool(0.3) {
			g.emit(Op{Obj: s, M: "SetFIFO", Args: []Val{vBool(true)}}, true)
		}
		if r.Bool(0.3) {
			g.emit(Op{Obj: s, M: "SetID", Args: []Val{vStr("id-" + itoa(s))}}, true)
		}
		if r.Bool(0.3) {
			g.emit(Op{Obj: s, M: "SetEncap", Args: []Val{vStr("\"")}}, true)
		}
		if r.Bool(0.3) {
			g.emit(Op{Obj: s, M: "SetSymbol", Args: []Val{vStr("&")}}, true)
			g.emit(Op{Obj: s, M: "SetDelimiter", Args: []Val{vStr(",")}}, true)
		}
		if r.Bool(0.2) {
			g.emit(Op{Obj: s, M: "SetLogLevel", Args: []Val{vStr("trace")}}, true)
		}
		if r.Bool(0.2) {
			g.emit(Op{Obj: s, M: "SetAuxiliary", Args: []Val{vAux(0)}}, true)
		}
		if r.Bool(0.3) {
			g.emit(Op{Obj: s, M: "SetMutex"}, true)
		}
		for _, p := range []string{"SetPushPolicy", "SetValidityPolicy", "SetPresentationPolicy"} {
			if r.Bool(0.12) {
				g.emit(Op{Obj: s, M: p, Args: []Val{vFn(0)}}, true)
			}
		}
		for _, p := range []string{"SetEqualityPolicy", "SetUnmarshaler", "SetMarshaler", "SetLessFunc"} {
			if r.Bool(0.12) {
				g.emit(Op{Obj: s, M: p, Args: []Val{vFn(0)}}, true)
			}
		}
	}
	for _, c := range w.conds {
		for _, o := range []string{"SetParen", "SetNoPadding", "SetNoNesting"} {
			if r.Bool(0.25) {
				g.emit(Op{Obj: c, M: o, Args: []Val{vBool(true)}}, true)
			}
		}
		if r.Bool(0.3) {
			g.emit(Op{Obj: c, M: "SetEncap", Args: []Val{vStrs("<", ">")}}, true)
		}
		if r.Bool(0.3) {
			g.emit(Op{Obj: c, M: "SetID", Args: []Val{vStr("cid-" + itoa(c))}}, true)
		}
		for _, p := range []string{"SetValidityPolicy", "SetPresentationPolicy", "SetEvaluator"} {
			if r.Bool(0.12) {
				g.emit(Op{Obj: c, M: p, Args: []Val{vFn(0)}}, true)
			}
		}
		for _, p := range []string{"SetEqualityPolicy", "SetUnmarshaler"} {
			if r.Bool(0.12) {
				g.emit(Op{Obj: c, M: p, Args: []Val{vFn(0)}}, true)
			}
		}
	}
	return w
}
