package main

import "strconv"

// One integer decides everything: every choice in a run is drawn from one
// xoshiro256** generator seeded (through splitmix64) from the run seed.

type Rng struct{ s [4]uint64 }

func splitmix(x *uint64) uint64 {
	*x += 0x9e3779b97f4a7c15
	z := *x
	z = (z ^ (z >> 30)) * 0xbf58476d1ce4e5b9
	z = (z ^ (z >> 27)) * 0x94d049bb133111eb
	return z ^ (z >> 31)
}

func NewRng(seed uint64) *Rng {
	r := &Rng{}
	x := seed
	for i := range r.s {
		r.s[i] = splitmix(&x)
	}
	return r
}

func rotl(x uint64, k uint) uint64 { return (x << k) | (x >> (64 - k)) }

func (r *Rng) U64() uint64 {
	res := rotl(r.s[1]*5, 7) * 9
	t := r.s[1] << 17
	r.s[2] ^= r.s[0]
	r.s[3] ^= r.s[1]
	r.s[1] ^= r.s[2]
	r.s[0] ^= r.s[3]
	r.s[2] ^= t
	r.s[3] = rotl(r.s[3], 45)
	return res
}

func (r *Rng) Intn(n int) int {
	if n <= 1 {
		return 0
	}
	return int(r.U64() % uint64(n))
}

// Range returns an int in [lo,hi].
func (r *Rng) Range(lo, hi int) int { return lo + r.Intn(hi-lo+1) }

func (r *Rng) Float() float64 { return float64(r.U64()>>11) / float64(1<<53) }

func (r *Rng) Bool(p float64) bool { return r.Float() < p }

func (r *Rng) PickStr(xs ...string) string { return xs[r.Intn(len(xs))] }

func (r *Rng) PickInt(xs ...int) int { return xs[r.Intn(len(xs))] }

// runSeed derives the seed of one run from the batch seed, the property
// name and the run number.
func runSeed(batch uint64, prop string, run int) uint64 {
	x := batch ^ 0x5851f42d4c957f2d
	h := splitmix(&x)
	for _, c := range []byte(prop) {
		x ^= uint64(c)
		h ^= splitmix(&x)
	}
	x ^= uint64(run) * 0x2545f4914f6cdd1d
	h ^= splitmix(&x)
	return h
}

// fnv-style hash for signatures (distinctness counting)
func hashStr(s string) uint64 {
	h := uint64(1469598103934665603)
	for i := 0; i < len(s); i++ {
		h ^= uint64(s[i])
		h *= 1099511628211
	}
	return h
}

func itoa(i int) string { return strconv.Itoa(i) }
