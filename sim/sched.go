package main

import (
	"fmt"
	"os"
	"runtime"
	"sort"
	"strings"
	"sync"
	"sync/atomic"
	"time"

	stackage "github.com/JesseCoretta/go-stackage"
)

// ---------------------------------------------------------------------
// The cooperative scheduler. Every client is a real goroutine parked on a
// channel; exactly one is ever released, runs real library code to its
// next yield point and reports back. Which one runs is decided here and
// nowhere else.

const (
	tReady = iota
	tWant
	tDone
)

type task struct {
	id       int
	prog     []Op
	resume   chan struct{}
	state    int
	wantLock uintptr
	wantObj  int
	held     map[uintptr]bool
	opIdx    int
	phase    string // position of the running op relative to its lock events: pre, crit, post
	cfgReads int
	vc       []int
	last     string // last yield point
	callSeq  int64
	yields   int
}

type event struct {
	kind string // op.end, lock.want, lock.held, lock.released, cfg.read, policy.*, done
	task int
	obj  int
	lock uintptr
	out  Outcome
	op   int
	last bool
}

type Violation struct {
	Sig  string `json:"signature"`
	Msg  string `json:"message"`
	Step int    `json:"step"`
}

type access struct {
	task, obj int
	write     bool
	covered   bool
	phase     string
	method    string
	vc        []int
	step      int
}

// HistOp is one completed call of a task, stamped with global event
// sequence numbers.
type HistOp struct {
	Task   int
	Op     Op
	Out    Outcome
	Call   int64
	Return int64
}

type Stats struct {
	Steps      int
	Switches   int
	Probes     map[string]int
	Faults     map[string]int
	LockOrder  []string
	SchedStr   string
	Linear     string // "", ok, illegal, unknown
	KnownSeen  map[string]int
	NonTrivial bool
	ShapeSig   string
}

const (
	modeFresh = iota
	modeReplay
	modeHints
)

type Exec struct {
	tr    *Trace
	w     *World
	prop  Prop
	mode  int
	rng   *Rng
	tasks []*task
	cur   *task
	dead  bool

	events chan event
	wg     sync.WaitGroup
	holder map[uintptr]*task
	vcLock map[uintptr][]int

	step     int
	seq      int64
	sched    []int
	lastTask *task

	viols    []Violation
	diverged string
	history  []HistOp
	accesses []access
	track    bool // record accesses for the race analysis
	stepCap  int

	stats    Stats
	state    any // property's oracle state
	halt     bool
	knownMsg map[string]string
	logOn    bool
	logLines []string
	inSeqOp  bool
	seqHeld  map[uintptr]bool
}

// reentrant is the panic value used to unwind a call that asked for a
// lock its own goroutine already holds (sequential configuration).
type reentrant struct{ obj string }

func (r reentrant) Error() string {
	return "sim:reentrant: the call asks for the lock of " + r.obj + " which it already holds (a real Lock() would block forever)"
}

func (x *Exec) objNameByCfg(cfg uintptr) string {
	if i, ok := x.w.byCfg[cfg]; ok {
		return x.w.objs[i].name
	}
	return "?"
}

func (x *Exec) logf(f string, a ...any) {
	if x.logOn {
		x.logLines = append(x.logLines, fmt.Sprintf(f, a...))
	}
}

func (x *Exec) snapHash() uint64 { return hashStr(strings.Join(x.w.snapshot(), "\n")) }

var progress int64 // bumped at every step; watched by the hang watchdog
var curRunInfo atomic.Value

// fail records a violation. A violation whose signature is an open entry
// of the committed known-findings file is counted, not recorded; the run
// still stops there (the state may be damaged).
func (x *Exec) fail(sig, msg string) {
	full := x.tr.Prop + ":" + sig
	if _, ok := knownOpen[full]; ok && !ignoreKnown {
		x.stats.KnownSeen[full]++
		if x.knownMsg == nil {
			x.knownMsg = map[string]string{}
		}
		x.knownMsg[full] = msg
		x.halt = true
		return
	}
	x.viols = append(x.viols, Violation{Sig: full, Msg: msg, Step: x.step})
}

func (x *Exec) failed() bool { return len(x.viols) > 0 || x.halt }

var ignoreKnown bool

func (x *Exec) probe(name string) { x.stats.Probes[name]++ }
func (x *Exec) fault(name string) { x.stats.Faults[name]++ }

func (x *Exec) curTask() int {
	if x.cur == nil {
		return -1
	}
	return x.cur.id
}

// hook is installed as stackage.VerifHook.
func (x *Exec) hook(point string, inst, cfg, lock uintptr) {
	t := x.cur
	if t == nil && x.inSeqOp && !x.dead {
		// sequential configuration: the driver goroutine is the only client.
		// A lock it asks for while holding it would block forever in a real
		// execution: unwind the call and report it.
		switch point {
		case "lock.want":
			if x.seqHeld[lock] {
				panic(reentrant{x.objNameByCfg(cfg)})
			}
		case "lock.held":
			x.seqHeld[lock] = true
		case "lock.released":
			delete(x.seqHeld, lock)
		}
		return
	}
	if t == nil || x.dead {
		return
	}
	obj := -1
	if i, ok := x.w.byCfg[cfg]; ok {
		obj = i
	} else if i, ok := x.w.byInst[inst]; ok {
		obj = i
	}
	switch point {
	case "cfg.read":
		t.cfgReads++
		if x.track && obj >= 0 {
			x.accesses = append(x.accesses, access{task: t.id, obj: obj, covered: lock != 0 && t.held[lock], phase: t.phase,
				method: x.opName(t), vc: append([]int(nil), t.vc...), step: x.step})
		}
		if n := x.tr.Knobs.CfgYield; n > 0 && t.cfgReads%n == 0 {
			x.yield(t, event{kind: "cfg.read", task: t.id, obj: obj})
		}
	case "lock.want":
		if h := x.holder[lock]; h == t {
			// the task asks for a lock it already holds: in a real execution
			// Lock() would block forever
			x.yield(t, event{kind: "deadlock.self", task: t.id, obj: obj, lock: lock})
			return
		}
		t.state = tWant
		t.wantLock = lock
		t.wantObj = obj
		x.yield(t, event{kind: "lock.want", task: t.id, obj: obj, lock: lock})
	case "lock.held":
		x.holder[lock] = t
		t.held[lock] = true
		t.phase = "crit"
		if v, ok := x.vcLock[lock]; ok {
			for i := range t.vc {
				if v[i] > t.vc[i] {
					t.vc[i] = v[i]
				}
			}
		}
		x.stats.LockOrder = append(x.stats.LockOrder, fmt.Sprintf("t%d", t.id))
		x.yield(t, event{kind: "lock.held", task: t.id, obj: obj, lock: lock})
	case "lock.released":
		delete(x.holder, lock)
		delete(t.held, lock)
		if len(t.held) == 0 {
			t.phase = "post"
		}
		x.vcLock[lock] = append([]int(nil), t.vc...)
		x.yield(t, event{kind: "lock.released", task: t.id, obj: obj, lock: lock})
	}
}

func (x *Exec) opName(t *task) string {
	if t.opIdx < len(t.prog) {
		return t.prog[t.opIdx].M
	}
	return "?"
}

// callbackYield is called by harness-owned closures.
func (x *Exec) callbackYield(kind string) {
	t := x.cur
	if t == nil || x.dead || !x.tr.Knobs.PolicyYield {
		return
	}
	x.yield(t, event{kind: kind, task: t.id, obj: -1})
}

type killed struct{}

func (x *Exec) yield(t *task, ev event) {
	t.last = ev.kind
	t.yields++
	x.events <- ev
	<-t.resume
	if x.dead {
		// the run is over: unwind this goroutine (deferred unlocks run,
		// their hooks are ignored because dead is set)
		runtime.Goexit()
	}
}

func (t *task) main(x *Exec) {
	defer x.wg.Done()
	<-t.resume
	if x.dead {
		return
	}
	for i, op := range t.prog {
		t.opIdx = i
		t.phase = "pre"
		out := x.w.invoke(op)
		if x.dead {
			return
		}
		last := i == len(t.prog)-1
		ev := event{kind: "op.end", task: t.id, obj: op.Obj, out: out, op: i, last: last}
		if last {
			t.last = ev.kind
			x.events <- ev
			return
		}
		x.yield(t, ev)
	}
}

func (x *Exec) runnable() []*task {
	var r []*task
	for _, t := range x.tasks {
		switch t.state {
		case tReady:
			r = append(r, t)
		case tWant:
			if x.holder[t.wantLock] == nil {
				r = append(r, t)
			}
		}
	}
	return r
}

func (x *Exec) choose(run []*task) *task {
	switch x.mode {
	case modeReplay, modeHints:
		if x.step < len(x.tr.Sched) {
			id := x.tr.Sched[x.step]
			for _, t := range run {
				if t.id == id {
					return t
				}
			}
			if x.mode == modeReplay {
				x.diverged = fmt.Sprintf("step %d: recorded task %d is not runnable", x.step, id)
				return nil
			}
		} else if x.mode == modeReplay {
			x.diverged = fmt.Sprintf("step %d: recorded schedule exhausted with tasks unfinished", x.step)
			return nil
		}
		// hint fallback: let the last task continue if it can, else the lowest-numbered
		if x.lastTask != nil {
			for _, t := range run {
				if t == x.lastTask {
					return t
				}
			}
		}
		return run[0]
	}
	if lt := x.lastTask; lt != nil && len(run) > 1 {
		in := false
		for _, t := range run {
			if t == lt {
				in = true
			}
		}
		if in {
			if lt.last == "lock.want" {
				if x.rng.Bool(x.tr.Knobs.PreemptWant) {
					var others []*task
					for _, t := range run {
						if t != lt {
							others = append(others, t)
						}
					}
					return others[x.rng.Intn(len(others))]
				}
			}
			if x.rng.Bool(x.tr.Knobs.Stay) {
				return lt
			}
		}
	}
	return run[x.rng.Intn(len(run))]
}

func (x *Exec) safeAdd(s ObjSpec) (msg string) {
	defer func() {
		if r := recover(); r != nil {
			msg = panicSite(r)
		}
	}()
	x.w.add(s)
	return ""
}

func describeSpecAny(s ObjSpec) string {
	if s.T == "C" && s.Kw != nil && s.Op != nil && s.Ex != nil {
		return fmt.Sprintf("Cond(%v, %v, %v)", *s.Kw, *s.Op, *s.Ex)
	}
	return s.T + " " + s.Kind
}

// simulated clock: the global event sequence number
func (x *Exec) now() time.Time { return time.Unix(0, x.seq) }

func newExec(tr *Trace, prop Prop, mode int) *Exec {
	x := &Exec{tr: tr, prop: prop, mode: mode, holder: map[uintptr]*task{}, vcLock: map[uintptr][]int{}, stepCap: 4000, seqHeld: map[uintptr]bool{}}
	x.rng = NewRng(tr.Seed ^ 0x7363686564756c65)
	x.stats.Probes = map[string]int{}
	x.stats.Faults = map[string]int{}
	x.stats.KnownSeen = map[string]int{}
	x.events = make(chan event)
	return x
}

// Run executes the trace. It returns with x.viols, x.sched and x.stats set.
func (x *Exec) Run() {
	curExec = x
	defer func() { curExec = nil }()
	stackage.VerifHook = x.hook
	stackage.VerifSetClock(x.now)
	defer func() { stackage.VerifHook = nil; stackage.VerifSetClock(nil) }()

	x.w = newWorld(x)
	for k, v := range x.tr.Closures {
		x.w.clos[k] = v
	}
	for i, s := range x.tr.Objs {
		// a constructor is library code too: a panic in Cond(...) is a
		// violation of whatever property is being checked, not a harness fault
		if msg := x.safeAdd(s); msg != "" {
			x.w.add(ObjSpec{T: "ZC"})
			x.fail("panic:constructor", fmt.Sprintf("creating world object %d (%s) panicked: %s", i, describeSpecAny(s), msg))
			return
		}
	}
	x.prop.Begin(x)
	for i, op := range x.tr.Setup {
		atomic.AddInt64(&progress, 1)
		x.inSeqOp = true
		out := x.w.invoke(op)
		x.inSeqOp = false
		x.seq++
		if x.logOn {
			x.logf("setup %d %s -> %s snap=%x", i, op, out, x.snapHash())
		}
		if strings.HasPrefix(out.Panic, "sim:reentrant") {
			x.fail("deadlock:reentrant:"+op.M, fmt.Sprintf("%s: %s", op, out.Panic))
			return
		}
		if len(x.seqHeld) > 0 && out.Panic == "" {
			x.fail("lock-leaked:"+op.M, fmt.Sprintf("%s returned normally but left a stack mutex locked: every later locking call on that stack blocks forever", op))
			return
		}
		for l := range x.seqHeld {
			delete(x.seqHeld, l)
		}
		x.prop.AfterOp(x, -1, i, op, out)
		if x.failed() {
			return
		}
	}
	x.prop.AfterSetup(x)
	if x.failed() {
		return
	}

	if x.tr.Seq {
		for ti, prog := range x.tr.Tasks {
			for i, op := range prog {
				atomic.AddInt64(&progress, 1)
				x.step++
				x.inSeqOp = true
				out := x.w.invoke(op)
				x.inSeqOp = false
				x.seq++
				if strings.HasPrefix(out.Panic, "sim:reentrant") {
					x.fail("deadlock:reentrant:"+op.M, fmt.Sprintf("%s: %s", op, out.Panic))
					return
				}
				if len(x.seqHeld) > 0 && out.Panic == "" {
					x.fail("lock-leaked:"+op.M, fmt.Sprintf("%s returned normally but left a stack mutex locked: every later locking call on that stack blocks forever", op))
					return
				}
				for l := range x.seqHeld {
					delete(x.seqHeld, l)
				}
				if x.logOn {
					x.logf("op %d.%d %s -> %s snap=%x", ti, i, op, out, x.snapHash())
				}
				x.prop.AfterOp(x, ti, i, op, out)
				if x.failed() {
					return
				}
			}
		}
		x.stats.Steps = x.step
		x.prop.End(x)
		return
	}

	nt := len(x.tr.Tasks)
	for i, prog := range x.tr.Tasks {
		t := &task{id: i, prog: prog, resume: make(chan struct{}), held: map[uintptr]bool{}, vc: make([]int, nt), phase: "pre"}
		if len(prog) == 0 {
			t.state = tDone
		}
		x.tasks = append(x.tasks, t)
	}
	for _, t := range x.tasks {
		if t.state != tDone {
			x.wg.Add(1)
			go t.main(x)
		}
	}
	defer x.teardown()

	for !x.failed() {
		run := x.runnable()
		if len(run) == 0 {
			all := true
			for _, t := range x.tasks {
				if t.state != tDone {
					all = false
				}
			}
			if all {
				break
			}
			x.fail("deadlock:"+x.deadlockSite(), "no runnable task: "+x.describeWaits())
			break
		}
		if x.step >= x.stepCap {
			x.fail("livelock:step-cap", fmt.Sprintf("tasks unfinished after %d steps", x.step))
			break
		}
		t := x.choose(run)
		if t == nil {
			break // diverged
		}
		if x.lastTask != nil && x.lastTask != t {
			x.stats.Switches++
		}
		x.sched = append(x.sched, t.id)
		var pre []string
		if x.prop.WantsStepDumps() {
			pre = x.w.snapshot()
		}
		heldAtStart := map[uintptr]bool{}
		for l := range t.held {
			heldAtStart[l] = true
		}
		if t.state == tWant {
			t.state = tReady
		}
		if t.callSeq == 0 || t.last == "op.end" {
			t.callSeq = x.seq + 1
		}
		t.vc[t.id]++
		x.cur = t
		atomic.AddInt64(&progress, 1)
		t.resume <- struct{}{}
		ev := <-x.events
		x.cur = nil
		x.step++
		x.seq++
		x.lastTask = t
		if x.logOn {
			x.logf("step %d t%d %s obj%d op%d %s snap=%x", x.step, t.id, ev.kind, ev.obj, t.opIdx, ev.out, x.snapHash())
		}
		switch ev.kind {
		case "op.end":
			x.history = append(x.history, HistOp{Task: t.id, Op: t.prog[ev.op], Out: ev.out, Call: t.callSeq, Return: x.seq})
			if len(t.held) > 0 && ev.out.Panic == "" {
				x.fail("lock-leaked:"+t.prog[ev.op].M, fmt.Sprintf("task %d: %s returned normally but left a stack mutex locked", t.id, t.prog[ev.op]))
			}
			if ev.last {
				t.state = tDone
			}
		case "deadlock.self":
			x.fail("deadlock:reentrant:"+x.opName(t), fmt.Sprintf("task %d asks for the lock of %s which it already holds (real Lock() would block forever)", t.id, x.objName(ev.obj)))
		}
		if x.failed() {
			break
		}
		x.prop.AfterStep(x, t, ev, pre, heldAtStart)
		if ev.kind == "op.end" && !x.failed() {
			x.prop.AfterOp(x, t.id, ev.op, t.prog[ev.op], ev.out)
		}
	}
	x.stats.Steps = x.step
	if x.diverged == "" && !x.failed() {
		x.prop.End(x)
	}
}

func (x *Exec) objName(i int) string {
	if i >= 0 && i < len(x.w.objs) {
		return x.w.objs[i].name
	}
	return "?"
}

func (x *Exec) deadlockSite() string {
	var ms []string
	for _, t := range x.tasks {
		if t.state == tWant {
			ms = append(ms, x.opName(t))
		}
	}
	sort.Strings(ms)
	return strings.Join(ms, "+")
}

func (x *Exec) describeWaits() string {
	var p []string
	for _, t := range x.tasks {
		if t.state == tWant {
			h := "nobody"
			if ht := x.holder[t.wantLock]; ht != nil {
				h = fmt.Sprintf("task %d (in %s, state %d)", ht.id, x.opName(ht), ht.state)
			}
			p = append(p, fmt.Sprintf("task %d in %s waits for the lock of %s held by %s", t.id, x.opName(t), x.objName(t.wantObj), h))
		}
	}
	return strings.Join(p, "; ")
}

// teardown releases every parked goroutine so that it unwinds.
func (x *Exec) teardown() {
	x.dead = true
	for _, t := range x.tasks {
		close(t.resume)
	}
	// drain events of goroutines that were mid-send (none should be) and wait
	done := make(chan struct{})
	go func() { x.wg.Wait(); close(done) }()
	for {
		select {
		case <-done:
			return
		case <-x.events:
		case <-time.After(10 * time.Second):
			// a goroutine is stuck inside the library (e.g. blocked in a real
			// Lock of a mutex leaked by a destroyed stack): abandon it
			return
		}
	}
}

// ---------------------------------------------------------------------
// hang watchdog: a step that does not come back

func startWatchdog(limit time.Duration) {
	go func() {
		last := atomic.LoadInt64(&progress)
		lastChange := time.Now()
		for {
			time.Sleep(500 * time.Millisecond)
			cur := atomic.LoadInt64(&progress)
			if cur != last {
				last = cur
				lastChange = time.Now()
				continue
			}
			if busy.Load() && time.Since(lastChange) > limit {
				buf := make([]byte, 1<<16)
				n := runtime.Stack(buf, true)
				info, _ := curRunInfo.Load().(string)
				fmt.Fprintf(os.Stderr, "HANG %s\n%s\n", info, buf[:n])
				fmt.Printf("{\"hang\":%q}\n", info)
				os.Exit(3)
			}
		}
	}()
}

var busy atomic.Bool
