package main

import (
	"encoding/json"
	"os"
)

// Knobs are per-run swarm settings. Stay and PreemptWant only bias the
// seeded choice of the next task in a fresh run; a replay follows the
// recorded schedule literally and ignores them.
type Knobs struct {
	CfgYield    int     `json:"cfg_yield,omitempty"`    // a task yields at every N-th configuration read (0: never)
	Stay        float64 `json:"stay,omitempty"`         // probability of letting the current task continue
	PreemptWant float64 `json:"preempt_want,omitempty"` // probability of switching away from a task parked at lock.want
	PolicyYield bool    `json:"policy_yield,omitempty"` // harness closures are yield points
}

// Trace is one simulated run as pure data. Replay executes it literally.
type Trace struct {
	Prop     string                 `json:"property"`
	Config   string                 `json:"config,omitempty"` // sub-configuration of the property's check
	Seed     uint64                 `json:"run_seed"`
	Run      int                    `json:"run"`
	Objs     []ObjSpec              `json:"world"`
	Closures map[string]ClosureSpec `json:"fault_plan,omitempty"` // seeded behaviour of harness closures (injected failures)
	Setup    []Op                   `json:"setup,omitempty"`
	Tasks    [][]Op                 `json:"programs"`
	Seq      bool                   `json:"sequential,omitempty"` // single task run on the driver goroutine (no schedule dimension)
	Knobs    Knobs                  `json:"knobs"`
	Sched    []int                  `json:"schedule,omitempty"`
	Sig      string                 `json:"violation_signature,omitempty"`
	Msg      string                 `json:"violation,omitempty"`
}

func (t *Trace) clone() *Trace {
	b, _ := json.Marshal(t)
	var n Trace
	_ = json.Unmarshal(b, &n)
	return &n
}

func (t *Trace) nops() int {
	n := len(t.Setup)
	for _, p := range t.Tasks {
		n += len(p)
	}
	return n
}

func writeTrace(path string, t *Trace) error {
	b, err := json.MarshalIndent(t, "", " ")
	if err != nil {
		return err
	}
	return os.WriteFile(path, append(b, '\n'), 0o644)
}

func readTrace(path string) (*Trace, error) {
	b, err := os.ReadFile(path)
	if err != nil {
		return nil, err
	}
	var t Trace
	if err := json.Unmarshal(b, &t); err != nil {
		return nil, err
	}
	return &t, nil
}
