package main

import (
	"errors"
	"fmt"
	"io"
	"log"
	"math"
	"os"
	"reflect"
	"sort"
	"strconv"
	"strings"

	stackage "github.com/JesseCoretta/go-stackage"
)

// ---------------------------------------------------------------------
// Values are pure data in traces; the world materialises them.

type Val struct {
	K string `json:"k"`
	I int64  `json:"i,omitempty"`
	S string `json:"s,omitempty"`
	D int    `json:"d,omitempty"`
	L []Val  `json:"l,omitempty"`
}

func vNil() Val         { return Val{K: "nil"} }
func vStr(s string) Val { return Val{K: "s", S: s} }
func vInt(i int) Val    { return Val{K: "i", I: int64(i)} }
func vBool(b bool) Val  { return Val{K: "b", I: b2i(b)} }
func vRef(i, d int) Val { return Val{K: "ref", I: int64(i), D: d} }
func vAwk(i int) Val    { return Val{K: "awk", I: int64(i)} }
func vErr(s string) Val { return Val{K: "err", S: s} }
func vOp(i int) Val     { return Val{K: "op", I: int64(i)} }
func vFn(i int) Val     { return Val{K: "fn", I: int64(i)} }
func vAux(i int) Val    { return Val{K: "aux", I: int64(i)} }
func vLvl(i int) Val    { return Val{K: "lvl", I: int64(i)} }
func vStrs(s ...string) Val {
	v := Val{K: "strs"}
	for _, x := range s {
		v.L = append(v.L, vStr(x))
	}
	return v
}

func b2i(b bool) int64 {
	if b {
		return 1
	}
	return 0
}

func (v Val) String() string {
	switch v.K {
	case "nil":
		return "nil"
	case "s":
		return strconv.Quote(v.S)
	case "i":
		return strconv.FormatInt(v.I, 10)
	case "b":
		return strconv.FormatBool(v.I != 0)
	case "ref":
		return "obj" + strconv.FormatInt(v.I, 10) + dressSuffix[v.D%len(dressSuffix)]
	case "strs", "anys":
		var p []string
		for _, e := range v.L {
			p = append(p, e.String())
		}
		return v.K + "[" + strings.Join(p, ",") + "]"
	}
	return v.K + ":" + strconv.FormatInt(v.I, 10) + v.S
}

// Dress codes for references to world objects.
const (
	dNative    = iota
	dAlias     // user-declared type derived from Stack/Condition, no methods
	dAliasStr  // alias with its own String method
	dPtrAlias  // pointer to alias
	dPtrNative // pointer to the native value
	nDress
)

var dressSuffix = []string{"", "/a", "/b", "/pa", "/p"}

type AStack stackage.Stack
type BStack stackage.Stack

func (b BStack) String() string { return stackage.Stack(b).String() }

type ACond stackage.Condition
type BCond stackage.Condition

func (b BCond) String() string { return stackage.Condition(b).String() }

// user-defined operator
type userOp struct{ text, ctx string }

func (u userOp) String() string  { return u.text }
func (u userOp) Context() string { return u.ctx }

// an operator whose text the history can change after it was accepted
type flipOp struct {
	w    *World
	name string
}

func (f flipOp) String() string {
	if t, ok := f.w.flipText[f.name]; ok {
		return t
	}
	return "~" + f.name
}
func (f flipOp) Context() string { return "flip" }

// a type with a String method (stringer expression / keyword)
type strer struct{ s string }

func (s strer) String() string { return s.s }

// named string types: one plain (not a string, not a stringer), one with a String method
type nstr string
type nstrS string

func (n nstrS) String() string { return "kw:" + string(n) }

// a stringer whose value is not its type's zero value even when its text is empty
type strer2 struct {
	s string
	n int
}

func (s strer2) String() string { return s.s }

// types with a method NAMED String that is not func() string
type badStr1 struct{ n int }

func (badStr1) String() []byte { return []byte("b") }

type badStr2 struct{ n int }

func (badStr2) String(i int) string { return "s" }

type badStr3 struct{ n int }

func (badStr3) String() (string, error) { return "s", nil }

type privStruct struct {
	a int
	B string
}

// awkPub / awkPriv: the same shape, one field exported on one side only
// (structs of different types are compared field by field, by position).
type awkPub struct {
	ID int
	N  any
}
type awkPriv struct {
	ID int
	n  any
}

// embedding an exported and an unexported type of the same shape
type AwkIn struct{ N int }
type awkIn struct{ N int }
type awkEmbPub struct {
	ID int
	AwkIn
}
type awkEmbPriv struct {
	ID int
	awkIn
}

func awkFunc() {}

const nAwk = 42

// awkward returns the k-th value of the catalogue of awkward Go values.
func (w *World) awkward(k int) any {
	switch k % nAwk {
	case 0:
		return (*int)(nil)
	case 1:
		return (*stackage.Stack)(nil)
	case 2:
		return (*AStack)(nil)
	case 3:
		return (**stackage.Condition)(nil)
	case 4:
		return stackage.Stack{}
	case 5:
		return stackage.Condition{}
	case 6:
		return awkFunc
	case 7:
		return w.ch
	case 8:
		return w.mp
	case 9:
		return math.NaN()
	case 10:
		return privStruct{1, "x"}
	case 11:
		return &privStruct{1, "x"}
	case 12:
		var p *int
		return &p
	case 13:
		return (**stackage.Stack)(nil)
	case 14:
		return w.err("awk-error")
	case 15:
		return &stackage.Stack{}
	case 16:
		return AStack{}
	case 17:
		return []any{}
	case 18:
		return [2]int{1, 2}
	case 19:
		return (*stackage.Condition)(nil)
	case 20:
		return complex(1, 2)
	case 21:
		return uintptr(7)
	case 22:
		return []string{"x"}
	case 23:
		return (*ACond)(nil)
	case 24:
		return ACond{}
	case 25:
		return &stackage.Condition{}
	case 26:
		var pp **stackage.Stack
		return &pp
	case 27:
		return w.mp2 // same type and length as 8, another key
	case 28:
		return []*int{nil}
	case 29:
		return [1]*int{nil}
	case 30:
		return map[string]any{"a": nil}
	case 31:
		return []any{nil, (*int)(nil)}
	case 32:
		return badStr1{1}
	case 33:
		return badStr2{1}
	case 34:
		return &badStr3{1}
	case 35:
		return struct{ A any }{[]int{1}} // a comparable TYPE whose == panics at run time
	case 36:
		return [1]any{[]string{"s"}}
	case 37:
		return struct {
			A any
			B int
		}{map[string]int{"k": 1}, 2}
	case 38:
		return awkPub{1, 2}
	case 39:
		return awkPriv{1, 2}
	case 40:
		return awkEmbPub{1, AwkIn{2}}
	case 41:
		return awkEmbPriv{1, awkIn{2}}
	}
	return nil
}

// awkSibling: the catalogue value that has the same shape as k but differs
// where a comparison must look twice (another key, an unexported twin).
func awkSibling(k int) (int, bool) {
	switch k {
	case 8:
		return 27, true
	case 27:
		return 8, true
	case 38:
		return 39, true
	case 39:
		return 38, true
	case 40:
		return 41, true
	case 41:
		return 40, true
	}
	return k, false
}

// val materialises a Val as an `any`.
func (w *World) val(v Val) any {
	switch v.K {
	case "nil", "":
		return nil
	case "s":
		return v.S
	case "i":
		return int(v.I)
	case "b":
		return v.I != 0
	case "f":
		return float64(v.I) / 4
	case "rune":
		return rune(v.I)
	case "ref":
		return w.ref(int(v.I), v.D)
	case "awk":
		return w.awkward(int(v.I))
	case "err":
		if v.S == "" {
			return nil
		}
		return w.err(v.S)
	case "op":
		return stackage.ComparisonOperator(v.I)
	case "uop":
		ctx := "user"
		if v.D == 1 {
			ctx = ""
		}
		return userOp{v.S, ctx}
	case "nstr":
		if v.D == 1 {
			return nstrS(v.S)
		}
		return nstr(v.S)
	case "fop":
		return flipOp{w, v.S}
	case "pstr":
		// a pointer to a string, the same pointer every time it is asked for
		if p, ok := w.pstrs[v.S]; ok {
			return p
		}
		s := v.S
		w.pstrs[v.S] = &s
		return &s
	case "strer":
		if v.D == 1 {
			return strer2{v.S, 1}
		}
		return strer{v.S}
	case "aux":
		return w.aux(int(v.I))
	case "lvl":
		return stackage.LogLevel(v.I)
	case "logger":
		return w.logger
	case "strs":
		out := make([]string, 0, len(v.L))
		for _, e := range v.L {
			out = append(out, e.S)
		}
		return out
	case "anys":
		out := make([]any, 0, len(v.L))
		for _, e := range v.L {
			out = append(out, w.val(e))
		}
		return out
	case "fn":
		// untyped context: hand over a push policy
		return pushPols[int(v.I)%nSlots]
	}
	panic("harness: unknown value kind " + v.K)
}

func (w *World) ref(i, d int) any {
	if i < 0 || i >= len(w.objs) {
		return nil
	}
	o := w.objs[i]
	if o.T == 'S' {
		s := o.keep
		switch d % nDress {
		case dNative:
			return s
		case dAlias:
			return AStack(s)
		case dAliasStr:
			return BStack(s)
		case dPtrAlias:
			a := AStack(s)
			return &a
		case dPtrNative:
			return &s
		}
	}
	c := o.keepC
	switch d % nDress {
	case dNative:
		return c
	case dAlias:
		return ACond(c)
	case dAliasStr:
		return BCond(c)
	case dPtrAlias:
		a := ACond(c)
		return &a
	case dPtrNative:
		return &c
	}
	return nil
}

func (w *World) err(name string) error {
	if e, ok := w.errs[name]; ok {
		return e
	}
	e := errors.New("sim:" + name)
	w.errs[name] = e
	w.errName[e] = name
	return e
}

func (w *World) aux(i int) stackage.Auxiliary {
	for len(w.auxes) <= i {
		m := stackage.Auxiliary{"k" + strconv.Itoa(len(w.auxes)): len(w.auxes)}
		w.auxes = append(w.auxes, m)
	}
	return w.auxes[i]
}

// arg materialises v for a parameter of type t.
func (w *World) arg(v Val, t reflect.Type) reflect.Value {
	if v.K == "nil" || v.K == "" {
		return reflect.Zero(t)
	}
	if t.Kind() == reflect.Func {
		if f := poolFunc(t, int(v.I)); f.IsValid() {
			return f
		}
		return reflect.Zero(t)
	}
	var x any
	switch t.Kind() {
	case reflect.Int:
		x = int(v.I)
	case reflect.Bool:
		x = v.I != 0
	case reflect.String:
		x = v.S
	default:
		x = w.val(v)
	}
	if x == nil {
		return reflect.Zero(t)
	}
	rv := reflect.ValueOf(x)
	if rv.Type().AssignableTo(t) {
		if t.Kind() == reflect.Interface {
			nv := reflect.New(t).Elem()
			nv.Set(rv)
			return nv
		}
		return rv
	}
	if rv.Type().ConvertibleTo(t) && t.Kind() != reflect.Interface {
		return rv.Convert(t)
	}
	panic(fmt.Sprintf("harness: value %v (%T) does not fit parameter %v", v, x, t))
}

// describe renders any Go value canonically and without addresses.
func (w *World) describe(x any) string { return w.describeD(x, 0) }

func (w *World) describeD(x any, depth int) string {
	switch v := x.(type) {
	case nil:
		return "nil"
	case string:
		return strconv.Quote(v)
	case int:
		return strconv.Itoa(v)
	case int32:
		return "r" + strconv.Itoa(int(v))
	case bool:
		return strconv.FormatBool(v)
	case float64:
		if v != v {
			return "NaN"
		}
		return strconv.FormatFloat(v, 'g', -1, 64)
	case error:
		if n, ok := w.errName[v]; ok {
			return "err#" + n
		}
		return "err"
	case []any:
		if v == nil {
			return "[]any(nil)"
		}
		p := make([]string, len(v))
		for i, e := range v {
			p[i] = w.describeD(e, depth+1)
		}
		return "[" + strings.Join(p, " ") + "]"
	case []string:
		return "strs" + fmt.Sprint(v)
	case stackage.ComparisonOperator:
		return "op" + strconv.Itoa(int(v))
	case userOp:
		return "uop(" + v.text + "," + v.ctx + ")"
	case nstr:
		return "nstr(" + string(v) + ")"
	case nstrS:
		return "nstrS(" + string(v) + ")"
	case flipOp:
		return "fop(" + v.name + ")"
	case *string:
		if v == nil {
			return "nil(*string)"
		}
		for k, p := range w.pstrs { // order-free: at most one match
			if p == v {
				return "pstr(" + k + ")"
			}
		}
		return "ptr(*string)"
	case strer:
		return "strer(" + v.s + ")"
	case strer2:
		return "strer2(" + v.s + ")"
	case stackage.LogLevel:
		return "lvl" + strconv.Itoa(int(v))
	case stackage.Auxiliary:
		return w.descAux(v)
	case *log.Logger:
		if v == nil {
			return "logger(nil)"
		}
		if v == w.logger {
			return "logger(world)"
		}
		switch v.Writer() {
		case io.Discard:
			return "logger(discard)"
		case os.Stdout:
			return "logger(stdout)"
		case os.Stderr:
			return "logger(stderr)"
		}
		return "logger(other)"
	}
	kind, inst, _ := stackage.VerifID(x)
	if kind != "" {
		suffix := typeDress(x)
		if i, ok := w.byInst[inst]; ok {
			return w.objs[i].name + suffix
		}
		if depth > 6 {
			return "<deep>"
		}
		// an instance the world does not own (built by the library):
		// render its state inline
		return "{" + w.renderState(stackage.VerifDump(x), depth+1) + "}" + suffix
	}
	rv := reflect.ValueOf(x)
	switch rv.Kind() {
	case reflect.Func:
		if n, ok := funcNames[rv.Pointer()]; ok {
			return "fn:" + n
		}
		return "fn:" + rv.Type().String()
	case reflect.Ptr:
		if rv.IsNil() {
			return "nil(" + rv.Type().String() + ")"
		}
		return "ptr(" + rv.Type().String() + ")"
	}
	return "<" + rv.Type().String() + ">"
}

func typeDress(x any) string {
	switch x.(type) {
	case stackage.Stack, stackage.Condition:
		return ""
	case AStack, ACond:
		return "/a"
	case BStack, BCond:
		return "/b"
	case *AStack, *ACond:
		return "/pa"
	case *stackage.Stack, *stackage.Condition:
		return "/p"
	}
	return fmt.Sprintf("/%T", x)
}

func (w *World) descAux(m stackage.Auxiliary) string {
	if m == nil {
		return "aux(nil)"
	}
	id := "?"
	p := reflect.ValueOf(m).Pointer()
	for i, a := range w.auxes {
		if reflect.ValueOf(a).Pointer() == p {
			id = strconv.Itoa(i)
		}
	}
	keys := make([]string, 0, len(m))
	for k := range m {
		keys = append(keys, k)
	}
	sort.Strings(keys)
	s := "aux#" + id + "{"
	for i, k := range keys {
		if i > 0 {
			s += ","
		}
		s += k + "=" + w.describeD(m[k], 3)
	}
	return s + "}"
}

// renderState renders a VerifState canonically, naming closures, maps and
// world objects through the world's registries.
func (w *World) renderState(st stackage.VerifState, depth int) string {
	var b strings.Builder
	b.WriteString(st.Kind)
	for _, f := range st.Fields {
		b.WriteString(" ")
		b.WriteString(f.Name)
		b.WriteString("=")
		b.WriteString(f.Text)
		if f.Ptr != 0 {
			if strings.HasPrefix(f.Text, "func:") {
				if n, ok := funcNames[f.Ptr]; ok {
					b.WriteString("@" + n)
				} else {
					b.WriteString("@lib")
				}
			} else if strings.HasPrefix(f.Text, "map") {
				id := "?"
				for i, a := range w.auxes {
					if reflect.ValueOf(a).Pointer() == f.Ptr {
						id = strconv.Itoa(i)
					}
				}
				b.WriteString("@aux" + id)
			}
		}
	}
	switch st.Kind {
	case "stack", "broken-stack":
		b.WriteString(" |")
		for _, s := range st.Slots {
			b.WriteString(" ")
			b.WriteString(w.describeD(s, depth+1))
		}
	case "cond":
		b.WriteString(" | kw=" + strconv.Quote(st.Kw))
		if st.Op == nil {
			b.WriteString(" op=nil")
		} else {
			b.WriteString(" op=" + w.describeD(st.Op, depth+1))
		}
		b.WriteString(" ex=" + w.describeD(st.Ex, depth+1))
	}
	return b.String()
}
