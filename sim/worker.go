package main

import (
	"encoding/json"
	"fmt"
	"os"
	"path/filepath"
	"strconv"
	"strings"
	"time"
)

type VRec struct {
	Sig    string `json:"signature"`
	Msg    string `json:"message"`
	Replay string `json:"replay"`
	Run    int    `json:"run"`
	Seed   uint64 `json:"run_seed"`
	Ops    int    `json:"ops_after_minimisation"`
	Ops0   int    `json:"ops_before_minimisation"`
	// Confirmed: already reproduced twice in fresh processes (crash classes)
	Confirmed bool `json:"confirmed_by_rerun,omitempty"`
}

type WorkerResult struct {
	Worker     int               `json:"worker"`
	Runs       int               `json:"runs"`
	Steps      int64             `json:"steps"`
	Switches   int64             `json:"switches"`
	NonTrivial int               `json:"nontrivial"`
	Probes     map[string]int    `json:"probes"`
	Faults     map[string]int    `json:"faults"`
	Known      map[string]int    `json:"known"`
	KnownMsg   map[string]string `json:"known_msg"`
	Linear     map[string]int    `json:"linear"`
	Shapes     []uint64          `json:"shapes"`
	Scheds     []uint64          `json:"scheds"`
	LockOrders []uint64          `json:"lock_orders"`
	Viols      []VRec            `json:"violations"`
	ViolRuns   int               `json:"violating_runs"`
	Samples    []json.RawMessage `json:"samples"`
	Diverged   []string          `json:"diverged"`
	WallS      float64           `json:"wall_s"`
}

func hangLimit() time.Duration {
	if s := os.Getenv("VERIF_HANG_S"); s != "" {
		if v, err := strconv.Atoi(s); err == nil {
			return time.Duration(v) * time.Second
		}
	}
	return 30 * time.Second
}

func workerMain(a []string) int {
	p := registry[a[0]]
	if p == nil {
		fmt.Fprintln(os.Stderr, "unknown property", a[0])
		return 2
	}
	tier := a[1]
	seed, _ := strconv.ParseUint(a[2], 10, 64)
	w, _ := strconv.Atoi(a[3])
	n, _ := strconv.Atoi(a[4])
	runs, _ := strconv.Atoi(a[5])
	announce := len(a) > 6 && a[6] == "announce"
	from := 0
	if len(a) > 7 {
		from, _ = strconv.Atoi(a[7])
	}
	startWatchdog(hangLimit())
	t0 := time.Now()
	res := WorkerResult{Worker: w, Probes: map[string]int{}, Faults: map[string]int{}, Known: map[string]int{}, KnownMsg: map[string]string{}, Linear: map[string]int{}}
	shapes := map[uint64]bool{}
	scheds := map[uint64]bool{}
	lockOrders := map[uint64]bool{}
	seenSig := map[string]bool{}
	enc := json.NewEncoder(os.Stdout)
	count := 0
	for run := w; run < runs; run += n {
		if run < from {
			continue
		}
		if announce {
			fmt.Printf("{\"run\":%d}\n", run)
		} else if count%1000 == 0 {
			fmt.Printf("{\"ckpt\":%d}\n", run)
		}
		count++
		tr := genRun(p, seed, tier, run)
		curRunInfo.Store(fmt.Sprintf("property=%s seed=%d run=%d", p.ID(), seed, run))
		busy.Store(true)
		x, err := execTrace(tr, p, modeFresh)
		busy.Store(false)
		if err != nil {
			fmt.Fprintf(os.Stderr, "worker %d: run %d: %v\n", w, run, err)
			return 2
		}
		res.Runs++
		res.Steps += int64(x.stats.Steps)
		res.Switches += int64(x.stats.Switches)
		for k, v := range x.stats.Probes {
			res.Probes[k] += v
		}
		for k, v := range x.stats.Faults {
			res.Faults[k] += v
		}
		for k, v := range x.stats.KnownSeen {
			res.Known[k] += v
			if _, ok := res.KnownMsg[k]; !ok {
				res.KnownMsg[k] = x.knownMsg[k]
			}
		}
		if x.stats.Linear != "" {
			res.Linear[x.stats.Linear]++
		}
		if x.stats.NonTrivial {
			res.NonTrivial++
			shapes[hashStr(x.stats.ShapeSig)] = true
		}
		if !tr.Seq {
			scheds[hashStr(fmt.Sprint(x.sched))] = true
			lockOrders[hashStr(strings.Join(x.stats.LockOrder, ""))] = true
		}
		if len(res.Samples) < 2 && x.stats.NonTrivial && len(x.viols) == 0 {
			tr.Sched = x.sched
			b, _ := json.Marshal(tr)
			res.Samples = append(res.Samples, b)
		}
		if len(x.viols) > 0 {
			res.ViolRuns++
			v := x.viols[0]
			if !seenSig[v.Sig] && len(seenSig) < 4 {
				seenSig[v.Sig] = true
				tr.Sched = x.sched
				n0 := tr.nops()
				min, mv := minimise(tr, p, v)
				min.Sig = mv.Sig
				min.Msg = mv.Msg
				name := fmt.Sprintf("%s-%s-%d-%d.json", p.ID(), sanitize(mv.Sig), seed, run)
				path := filepath.Join(replayDir(), name)
				if err := writeTrace(path, min); err != nil {
					fmt.Fprintln(os.Stderr, "worker: cannot write replay:", err)
					return 2
				}
				// keep the un-minimised original beside it
				orig := tr.clone()
				orig.Sig = v.Sig
				orig.Msg = v.Msg
				_ = writeTrace(strings.TrimSuffix(path, ".json")+".orig.json", orig)
				res.Viols = append(res.Viols, VRec{Sig: mv.Sig, Msg: mv.Msg, Replay: path, Run: run, Seed: tr.Seed, Ops: min.nops(), Ops0: n0})
			}
		}
	}
	for h := range shapes {
		res.Shapes = append(res.Shapes, h)
	}
	for h := range scheds {
		res.Scheds = append(res.Scheds, h)
	}
	for h := range lockOrders {
		res.LockOrders = append(res.LockOrders, h)
	}
	res.WallS = time.Since(t0).Seconds()
	_ = enc.Encode(map[string]any{"result": res})
	return 0
}

func sanitize(s string) string {
	var b strings.Builder
	for _, c := range s {
		switch {
		case c >= 'a' && c <= 'z', c >= 'A' && c <= 'Z', c >= '0' && c <= '9', c == '-', c == '_', c == '.':
			b.WriteRune(c)
		default:
			b.WriteRune('_')
		}
	}
	out := b.String()
	if len(out) > 80 {
		out = out[:80]
	}
	return out
}

// eventlogMain prints the complete event log of a range of runs: used by
// the determinism self-test, which diffs the logs of repeated executions.
func eventlogMain(a []string) int {
	p := registry[a[0]]
	if p == nil {
		return 2
	}
	seed, _ := strconv.ParseUint(a[1], 10, 64)
	from, _ := strconv.Atoi(a[2])
	to, _ := strconv.Atoi(a[3])
	ignoreKnown = false
	for run := from; run < to; run++ {
		tr := genRun(p, seed, "quick", run)
		b, _ := json.Marshal(tr)
		fmt.Printf("run %d seed %d trace %x\n", run, tr.Seed, hashStr(string(b)))
		x := newExec(tr, p, modeFresh)
		x.logOn = true
		x.Run()
		for _, l := range x.logLines {
			fmt.Println(" ", l)
		}
		fmt.Printf("  sched %v\n", x.sched)
		for _, v := range x.viols {
			fmt.Printf("  viol %s step %d %s\n", v.Sig, v.Step, v.Msg)
		}
		for _, k := range sortedKeys(x.stats.KnownSeen) {
			fmt.Printf("  known %s %d\n", k, x.stats.KnownSeen[k])
		}
		if x.w != nil {
			for i, d := range x.w.snapshot() {
				fmt.Printf("  final %d %s\n", i, d)
			}
		}
	}
	return 0
}
