package main

import (
	"io"
	"log"
	"reflect"
	"strconv"
	"strings"

	stackage "github.com/JesseCoretta/go-stackage"
)

// ObjSpec describes one world object; everything else about it is set up
// by ordinary operations in Trace.Setup.
type ObjSpec struct {
	T    string `json:"t"`              // "S" stack, "C" condition, "ZS" zero stack, "ZC" zero condition, "IC" Init()-only condition
	Kind string `json:"kind,omitempty"` // AND OR NOT LIST BASIC
	Cap  int    `json:"cap,omitempty"`  // 0 = constructor called without capacity
	Kw   *Val   `json:"kw,omitempty"`
	Op   *Val   `json:"op,omitempty"`
	Ex   *Val   `json:"ex,omitempty"`
}

type Obj struct {
	T     byte
	name  string
	spec  ObjSpec
	S     *stackage.Stack     // the handle operations are invoked on
	C     *stackage.Condition // "
	keep  stackage.Stack      // a second handle to the same structure
	keepC stackage.Condition
}

// ClosureSpec is the seeded behaviour of one harness-owned closure slot.
type ClosureSpec struct {
	RejectAt   []int    `json:"reject_at,omitempty"`   // consultation numbers (0-based, per slot) answered with an error
	RejectVals []string `json:"reject_vals,omitempty"` // described values answered with an error
	Always     bool     `json:"always,omitempty"`      // every consultation is answered with an error
}

type Consult struct {
	Kind string // push valid pres equal unmarshal marshal less eval
	Slot int
	Args string
	Ret  string
	Task int
}

type World struct {
	objs    []*Obj
	byInst  map[uintptr]int
	byCfg   map[uintptr]int
	errs    map[string]error
	errName map[error]string
	auxes   []stackage.Auxiliary
	logger  *log.Logger
	ch      chan int
	mp      map[string]int
	mp2     map[string]int
	clos    map[string]ClosureSpec // key kind+slot
	ncons   map[string]int
	consult []Consult
	x       *Exec
	// rawStamp: dumps show the lock-duration stamp (C10 only)
	rawStamp bool
	flipText map[string]string // current text of flip operators
	pstrs    map[string]*string
}

func newWorld(x *Exec) *World {
	w := &World{
		byInst:   map[uintptr]int{},
		byCfg:    map[uintptr]int{},
		errs:     map[string]error{},
		errName:  map[error]string{},
		logger:   log.New(io.Discard, "w", 0),
		ch:       make(chan int),
		mp:       map[string]int{"a": 1},
		mp2:      map[string]int{"b": 1},
		clos:     map[string]ClosureSpec{},
		flipText: map[string]string{},
		pstrs:    map[string]*string{},
		ncons:    map[string]int{},
		x:        x,
	}
	return w
}

func (w *World) add(spec ObjSpec) *Obj {
	o := &Obj{spec: spec}
	idx := len(w.objs)
	switch spec.T {
	case "S":
		var s stackage.Stack
		var c []int
		if spec.Cap != 0 {
			c = []int{spec.Cap}
		}
		switch spec.Kind {
		case "AND":
			s = stackage.And(c...)
		case "OR":
			s = stackage.Or(c...)
		case "NOT":
			s = stackage.Not(c...)
		case "LIST":
			s = stackage.List(c...)
		default:
			s = stackage.Basic(c...)
		}
		o.T = 'S'
		o.keep = s
		h := s
		o.S = &h
		o.name = "S" + strconv.Itoa(idx)
	case "ZS":
		o.T = 'S'
		o.S = &stackage.Stack{}
		o.name = "S" + strconv.Itoa(idx)
	case "C":
		var kw, ex any
		var op stackage.Operator
		if spec.Kw != nil {
			kw = w.val(*spec.Kw)
		}
		if spec.Op != nil {
			if v := w.val(*spec.Op); v != nil {
				op, _ = v.(stackage.Operator)
			}
		}
		if spec.Ex != nil {
			ex = w.val(*spec.Ex)
		}
		c := stackage.Cond(kw, op, ex)
		o.T = 'C'
		o.keepC = c
		h := c
		o.C = &h
		o.name = "C" + strconv.Itoa(idx)
	case "IC":
		var c stackage.Condition
		c.Init()
		o.T = 'C'
		o.keepC = c
		h := c
		o.C = &h
		o.name = "C" + strconv.Itoa(idx)
	case "ZC":
		o.T = 'C'
		o.C = &stackage.Condition{}
		o.name = "C" + strconv.Itoa(idx)
	default:
		panic("harness: bad object spec " + spec.T)
	}
	w.objs = append(w.objs, o)
	w.register(idx)
	return o
}

// register (re-)records the identity of object idx (its handle may have
// been replaced by Marshal or Condition.Init).
func (w *World) register(idx int) {
	o := w.objs[idx]
	var h any
	if o.T == 'S' {
		h = *o.S
	} else {
		h = *o.C
	}
	if k, inst, cfg := stackage.VerifID(h); k != "" {
		if _, dup := w.byInst[inst]; !dup {
			w.byInst[inst] = idx
		}
		if cfg != 0 {
			if _, dup := w.byCfg[cfg]; !dup {
				w.byCfg[cfg] = idx
			}
		}
	}
}

func (o *Obj) handle() any {
	if o.T == 'S' {
		return *o.S
	}
	return *o.C
}

// recv is the receiver for reflective invocation (pointer, so that both
// value and pointer methods are found).
func (o *Obj) recv() reflect.Value {
	if o.T == 'S' {
		return reflect.ValueOf(o.S)
	}
	return reflect.ValueOf(o.C)
}

// dump renders the complete raw state of object i: the structure the
// retained handle points to (so that Free on the working handle does not
// hide it) plus whether the working handle is zero.
func (w *World) dump(i int) string {
	o := w.objs[i]
	var st stackage.VerifState
	var zero bool
	if o.T == 'S' {
		zero = o.S.IsZero()
		if o.keep.IsZero() {
			st = stackage.VerifDump(*o.S)
		} else {
			st = stackage.VerifDump(o.keep)
		}
	} else {
		zero = o.C.IsZero()
		if o.keepC.IsZero() {
			st = stackage.VerifDump(*o.C)
		} else {
			st = stackage.VerifDump(o.keepC)
		}
	}
	s := w.renderState(st, 0)
	if !w.rawStamp {
		// the lock-duration stamp is ephemeral bookkeeping, not configuration:
		// only C10 (which checks WHERE it is written) looks at it
		s = normStamp(s)
	}
	if zero {
		s = "handle=zero " + s
	} else if k, inst, _ := stackage.VerifID(o.handle()); k != "" {
		if j, ok := w.byInst[inst]; !ok || j != i {
			// handle no longer points at the structure it was created with
			s = "handle=moved{" + w.renderState(stackage.VerifDump(o.handle()), 1) + "} " + s
		}
	}
	return s
}

func (w *World) snapshot() []string {
	out := make([]string, len(w.objs))
	for i := range w.objs {
		out[i] = w.dump(i)
	}
	return out
}

// dumpField extracts one configuration field's text from a dump string.
func dumpField(d, name string) string {
	fields, _ := splitDump(d)
	for _, f := range fields {
		if strings.HasPrefix(f, name+"=") {
			return f[len(name)+1:]
		}
	}
	return ""
}

func indexOf(s, sub string) int {
	for i := 0; i+len(sub) <= len(s); i++ {
		if s[i:i+len(sub)] == sub {
			return i
		}
	}
	return -1
}

// ---------------------------------------------------------------------
// Closure pools: distinct top-level functions (distinct code pointers, so
// that the raw dump can tell which one is installed) dispatching to the
// seeded behaviour of their slot in the current world.

const nSlots = 3

var curExec *Exec

func consultPush(slot int, x []any) error {
	e := curExec
	if e == nil {
		return nil
	}
	w := e.w
	key := "push" + strconv.Itoa(slot)
	n := w.ncons[key]
	w.ncons[key] = n + 1
	spec := w.clos[key]
	args := w.describe(anySlice(x))
	var err error
	if spec.Always {
		err = w.err("push" + strconv.Itoa(slot) + "-reject")
	}
	for _, k := range spec.RejectAt {
		if k == n {
			err = w.err("push" + strconv.Itoa(slot) + "-reject")
		}
	}
	if len(x) == 1 {
		d := w.describe(x[0])
		for _, rv := range spec.RejectVals {
			if rv == d {
				err = w.err("push" + strconv.Itoa(slot) + "-reject")
			}
		}
	}
	w.consult = append(w.consult, Consult{"push", slot, args, w.describe(err), e.curTask()})
	e.callbackYield("policy.push")
	return err
}

func anySlice(x []any) any {
	if x == nil {
		return []any{}
	}
	return x
}

func consultErr(kind string, slot int, x []any) error {
	e := curExec
	if e == nil {
		return nil
	}
	w := e.w
	key := kind + strconv.Itoa(slot)
	n := w.ncons[key]
	w.ncons[key] = n + 1
	spec := w.clos[key]
	var err error
	if spec.Always {
		err = w.err(key + "-reject")
	}
	for _, k := range spec.RejectAt {
		if k == n {
			err = w.err(key + "-reject")
		}
	}
	w.consult = append(w.consult, Consult{kind, slot, w.describe(anySlice(x)), w.describe(err), e.curTask()})
	e.callbackYield("policy." + kind)
	return err
}

func consultNote(kind string, slot int, args string, ret string) {
	e := curExec
	if e == nil {
		return
	}
	w := e.w
	key := kind + strconv.Itoa(slot)
	w.ncons[key]++
	w.consult = append(w.consult, Consult{kind, slot, args, ret, e.curTask()})
	e.callbackYield("policy." + kind)
}

var (
	pushPols = [nSlots]stackage.PushPolicy{
		func(x ...any) error { return consultPush(0, x) },
		func(x ...any) error { return consultPush(1, x) },
		func(x ...any) error { return consultPush(2, x) },
	}
	validPols = [nSlots]stackage.ValidityPolicy{
		func(x ...any) error { return consultErr("valid", 0, nil) },
		func(x ...any) error { return consultErr("valid", 1, nil) },
		func(x ...any) error { return consultErr("valid", 2, nil) },
	}
	presPols = [nSlots]stackage.PresentationPolicy{
		func(x ...any) string { consultNote("pres", 0, "", "PRES0"); return "PRES0" },
		func(x ...any) string { consultNote("pres", 1, "", "PRES1"); return "PRES1" },
		func(x ...any) string { consultNote("pres", 2, "", "PRES2"); return "PRES2" },
	}
	equalPols = [nSlots]stackage.EqualityPolicy{
		func(a, b any) error { return consultErr("equal", 0, nil) },
		func(a, b any) error { return consultErr("equal", 1, nil) },
		func(a, b any) error { return consultErr("equal", 2, nil) },
	}
	unmarshalers = [nSlots]stackage.Unmarshaler{
		func(x ...any) ([]any, error) { return []any{"UM0"}, consultErr("unmarshal", 0, nil) },
		func(x ...any) ([]any, error) { return []any{"UM1"}, consultErr("unmarshal", 1, nil) },
		func(x ...any) ([]any, error) { return []any{"UM2"}, consultErr("unmarshal", 2, nil) },
	}
	marshalers = [nSlots]stackage.Marshaler{
		func(x ...any) error { return consultErr("marshal", 0, x) },
		func(x ...any) error { return consultErr("marshal", 1, x) },
		func(x ...any) error { return consultErr("marshal", 2, x) },
	}
	lessFuncs = [nSlots]stackage.LessFunc{
		func(i, j int) bool { consultNote("less", 0, "", ""); return i < j },
		func(i, j int) bool { consultNote("less", 1, "", ""); return i > j },
		func(i, j int) bool { consultNote("less", 2, "", ""); return false },
	}
	evaluators = [nSlots]stackage.Evaluator{
		func(x ...any) (any, error) { return "EV0", consultErr("eval", 0, x) },
		func(x ...any) (any, error) { return "EV1", consultErr("eval", 1, x) },
		func(x ...any) (any, error) { return "EV2", consultErr("eval", 2, x) },
	}
)

var funcNames = map[uintptr]string{}
var poolByType = map[reflect.Type][]reflect.Value{}

func regPool(name string, fns ...any) {
	for i, f := range fns {
		v := reflect.ValueOf(f)
		funcNames[v.Pointer()] = name + strconv.Itoa(i)
		poolByType[v.Type()] = append(poolByType[v.Type()], v)
	}
}

func init() {
	regPool("push", pushPols[0], pushPols[1], pushPols[2])
	regPool("valid", validPols[0], validPols[1], validPols[2])
	regPool("pres", presPols[0], presPols[1], presPols[2])
	regPool("equal", equalPols[0], equalPols[1], equalPols[2])
	regPool("unmarshal", unmarshalers[0], unmarshalers[1], unmarshalers[2])
	regPool("marshal", marshalers[0], marshalers[1], marshalers[2])
	regPool("less", lessFuncs[0], lessFuncs[1], lessFuncs[2])
	regPool("eval", evaluators[0], evaluators[1], evaluators[2])
	funcNames[reflect.ValueOf(awkFunc).Pointer()] = "awk"
}

func poolFunc(t reflect.Type, slot int) reflect.Value {
	p := poolByType[t]
	if len(p) == 0 {
		return reflect.Value{}
	}
	if slot < 0 {
		slot = -slot
	}
	return p[slot%len(p)]
}
